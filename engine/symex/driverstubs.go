// Stubs for the command-line driver (C20): files registered by the harness,
// JSON decoding of concrete text, context.WithTimeout.

package symex

import (
	"strings"
	"encoding/json"
	"fmt"
	"go/types"
)

func init() {
	externals["io/ioutil.ReadFile"] = extReadFile
	externals["os.ReadFile"] = extReadFile
	externals["encoding/json.Unmarshal"] = extJSONUnmarshal
	externals["context.WithTimeout"] = extWithTimeout
	externals["context.WithCancel"] = func(fr *frame, args []value) value {
		return tuple{args[0], nativeFn(func(fr *frame, a []value) value { return nil })}
	}
}

// driverOnly lists the models that stand for the file system: they apply to
// calls made by the command-line driver (package main), which may read the
// files it is given. The same call made by library code is not modelled and
// so reaches the confinement monitor (C10).
var driverOnly = map[string]bool{"io/ioutil.ReadFile": true, "os.ReadFile": true}

func callerIsDriver(caller *frame) bool {
	return caller != nil && caller.fn != nil && caller.fn.Pkg != nil && caller.fn.Pkg.Pkg != nil && caller.fn.Pkg.Pkg.Name() == "main"
}

// extReadFile returns the content the harness registered for the path
// (sv.File); any other path does not exist.
func extReadFile(fr *frame, args []value) value {
	p := fr.i.path
	name := p.concreteString(args[0], "file name")
	if c, ok := p.files[name]; ok {
		return tuple{append([]value{}, strBytes(c)...), iface{}}
	}
	return tuple{[]value(nil), fr.mkError("open " + name + ": no such file or directory")}
}

func extWithTimeout(fr *frame, args []value) value {
	cancel := nativeFn(func(fr *frame, a []value) value { return nil })
	// A time-out of at most a microsecond has passed before the script can
	// start: the context handed back is already done (the harness's model of
	// a context, done from the first look at it). Any longer deadline never
	// fires within a bounded run.
	if d, ok := args[1].(int64); ok && d <= 1000 {
		if pkg := fr.i.prog.ImportedPackage(strings.TrimSuffix(fr.i.ld.RepoPrefix, "/") + svPkg); pkg != nil {
			if tn := pkg.Type("SymCtx"); tn != nil {
				p := fr.i.path
				id := len(p.ctxs)
				p.ctxs = append(p.ctxs, &ctxState{k: p.ts.BV(0, 64)})
				cell := value(structure{id, 0, int64(0), false})
				return tuple{iface{t: types.NewPointer(tn.Type()), v: &cell}, cancel}
			}
		}
		fr.i.path.unsupported("context.WithTimeout with an expired deadline: no model of a done context in this package")
	}
	return tuple{args[0], cancel}
}

var emptyIface = types.NewInterfaceType(nil, nil).Complete()

// fromJSON converts a decoded JSON value into interpreter values.
func fromJSON(v interface{}) value {
	switch x := v.(type) {
	case nil:
		return iface{}
	case bool:
		return iface{types.Typ[types.Bool], x}
	case float64:
		return iface{types.Typ[types.Float64], x}
	case string:
		return iface{types.Typ[types.String], x}
	case []interface{}:
		s := make([]value, len(x))
		for i := range x {
			s[i] = fromJSON(x[i])
		}
		return iface{types.NewSlice(emptyIface), s}
	case map[string]interface{}:
		m := newOmap(types.Typ[types.String])
		// deterministic order
		keys := make([]string, 0, len(x))
		for k := range x {
			keys = append(keys, k)
		}
		sortStrings(keys)
		for _, k := range keys {
			m.keys = append(m.keys, k)
			m.vals = append(m.vals, fromJSON(x[k]))
			m.idx[k] = len(m.keys) - 1
		}
		return iface{types.NewMap(types.Typ[types.String], emptyIface), m}
	}
	panic(engineBug{fmt.Sprintf("fromJSON: %T", v)})
}

func sortStrings(s []string) {
	for i := 1; i < len(s); i++ {
		for j := i; j > 0 && s[j] < s[j-1]; j-- {
			s[j], s[j-1] = s[j-1], s[j]
		}
	}
}

// extJSONUnmarshal decodes concrete JSON text into *map[string]interface{}.
func extJSONUnmarshal(fr *frame, args []value) value {
	p := fr.i.path
	text := p.concreteString(mkStr(args[0].([]value)), "JSON text")
	target := args[1].(iface)
	ptr, ok := target.v.(*value)
	if !ok || ptr == nil {
		return fr.mkError("json: Unmarshal(non-pointer)")
	}
	if _, isMap := (*ptr).(*omap); !isMap {
		p.unsupported("json.Unmarshal into %T", *ptr)
	}
	var doc map[string]interface{}
	if err := json.Unmarshal([]byte(text), &doc); err != nil {
		return fr.mkError(err.Error())
	}
	dst := (*ptr).(*omap)
	if dst == nil {
		dst = newOmap(types.Typ[types.String])
		*ptr = dst
	}
	src := fromJSON(doc).(iface).v.(*omap)
	for i, k := range src.keys {
		dst.insert(p, k, src.vals[i])
	}
	return iface{}
}
