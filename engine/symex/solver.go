// Solver sessions: one long-lived solver process per worker and back end.

package symex

import (
	"bufio"
	"fmt"
	"io"
	"os"
	"os/exec"
	"strconv"
	"strings"
	"sync/atomic"
	"time"
)

// SolverStats are global counters (atomic).
type SolverStats struct {
	Queries  int64
	Sat      int64
	Unsat    int64
	Unknown  int64
	Errors   int64
	NanosZ3  int64
	NanosCVC int64
}

var Stats SolverStats

type proc struct {
	name    string
	cmd     *exec.Cmd
	in      io.WriteCloser
	out     *bufio.Reader
	log     io.Writer
	lines   chan string
	timeout time.Duration
	dead    bool
}

func startProc(name string, timeoutMs int) (*proc, error) {
	var c *exec.Cmd
	switch name {
	case "z3":
		c = exec.Command("z3", "-in", fmt.Sprintf("-t:%d", timeoutMs))
	case "z3-new":
		c = exec.Command("z3-new", "-in", fmt.Sprintf("-t:%d", timeoutMs))
	case "cvc5":
		c = exec.Command("cvc5", "--incremental", "--lang=smt2", "--produce-models", fmt.Sprintf("--tlimit-per=%d", timeoutMs))
	default:
		return nil, fmt.Errorf("unknown solver %s", name)
	}
	in, err := c.StdinPipe()
	if err != nil {
		return nil, err
	}
	out, err := c.StdoutPipe()
	if err != nil {
		return nil, err
	}
	c.Stderr = os.Stderr
	if err := c.Start(); err != nil {
		return nil, err
	}
	p := &proc{name: name, cmd: c, in: in, out: bufio.NewReaderSize(out, 1<<16), lines: make(chan string, 64),
		timeout: time.Duration(timeoutMs)*time.Millisecond + 5*time.Second}
	go func() {
		for {
			l, err := p.out.ReadString('\n')
			if err != nil {
				p.lines <- "(error \"solver died: " + err.Error() + "\")"
				close(p.lines)
				return
			}
			p.lines <- l
		}
	}()
	if lf := os.Getenv("VCHECK_SMTLOG"); lf != "" {
		f, _ := os.OpenFile(fmt.Sprintf("%s.%s.%d", lf, name, c.Process.Pid), os.O_CREATE|os.O_WRONLY|os.O_TRUNC, 0644)
		p.log = f
	}
	p.send("(set-option :produce-models true)")
	if name == "cvc5" {
		p.send("(set-logic ALL)")
	}
	return p, nil
}

func (p *proc) send(s string) {
	if p.log != nil {
		io.WriteString(p.log, s+"\n")
	}
	io.WriteString(p.in, s+"\n")
}

// rawLine returns the next output line; on a watchdog timeout the solver
// process is killed and "timeout" is returned.
func (p *proc) rawLine() string {
	if p.dead {
		return "timeout"
	}
	select {
	case l, ok := <-p.lines:
		if !ok {
			p.dead = true
			return "(error \"solver died\")"
		}
		if p.log != nil {
			io.WriteString(p.log, "; <- "+l)
		}
		return l
	case <-time.After(p.timeout):
		p.dead = true
		p.cmd.Process.Kill()
		return "timeout"
	}
}

func (p *proc) readLine() string {
	return strings.TrimSpace(p.rawLine())
}

// readSexp reads one balanced s-expression (possibly multi-line).
func (p *proc) readSexp() string {
	var sb strings.Builder
	depth := 0
	started := false
	for {
		l := p.rawLine()
		if p.dead {
			return "(error \"solver died\")"
		}
		inStr := false
		for _, c := range l {
			switch {
			case c == '"':
				inStr = !inStr
			case inStr:
			case c == '(':
				depth++
				started = true
			case c == ')':
				depth--
			}
		}
		sb.WriteString(l)
		if strings.TrimSpace(l) != "" && !started {
			break // atom
		}
		if started && depth <= 0 {
			break
		}
	}
	return strings.TrimSpace(sb.String())
}

func (p *proc) close() {
	if p.dead {
		return
	}
	p.send("(exit)")
	p.in.Close()
	done := make(chan struct{})
	go func() { p.cmd.Wait(); close(done) }()
	select {
	case <-done:
	case <-time.After(2 * time.Second):
		p.cmd.Process.Kill()
	}
}

// Session is the per-path view of a worker's solver processes. All base
// level commands are recorded so that the path can be moved to another back
// end (z3 -> cvc5 when floating point appears).
type Session struct {
	w        *Worker
	cur      *proc
	base     []string // commands at path level (decls, defs, asserts)
	emitted  map[int]bool
	ufs      map[string]bool
	usingFP  bool
	open     bool
	lastSat  bool
	nqueries int
}

func (w *Worker) newSession() *Session {
	s := &Session{w: w, emitted: map[int]bool{}, ufs: map[string]bool{}}
	// z3 4.8.12 degrades over a long push/pop session (get-value after
	// thousands of popped definitions takes seconds): use a fresh process
	// every so many paths.
	w.z3uses++
	if w.z3uses > 150 || w.z3.dead {
		name := w.z3.name
		w.z3.close()
		np, err := startProc(name, w.ex.opt.TimeoutMs)
		if err != nil {
			panic(engineBug{"cannot restart solver: " + err.Error()})
		}
		w.z3 = np
		w.z3uses = 0
	}
	if w.cvc5 != nil {
		w.cvcuses++
		if w.cvcuses > 150 || w.cvc5.dead {
			w.cvc5.close()
			w.cvc5 = nil
			w.cvcuses = 0
		}
	}
	s.cur = w.z3
	s.cur.send("(push 1)")
	s.open = true
	return s
}

func (s *Session) end() {
	if s.open {
		s.cur.send("(pop 1)")
		s.open = false
	}
}

func (s *Session) baseCmd(c string) {
	s.base = append(s.base, c)
	s.cur.send(c)
}

func (s *Session) switchToCVC5() {
	if s.usingFP {
		return
	}
	s.usingFP = true
	if s.w.forceSolver != "" {
		return
	}
	s.cur.send("(pop 1)")
	s.cur = s.w.getCVC5()
	s.cur.send("(push 1)")
	for _, c := range s.base {
		s.cur.send(c)
	}
}

// emit makes sure t is defined in the solver at path level.
func (s *Session) emit(t *Term) {
	if t.isC || s.emitted[t.id] {
		return
	}
	if t.hasFP && !s.usingFP {
		s.switchToCVC5()
	}
	// iterative post-order to avoid deep recursion
	type fr struct {
		t *Term
		i int
	}
	st := []fr{{t, 0}}
	for len(st) > 0 {
		top := &st[len(st)-1]
		if top.t.isC || s.emitted[top.t.id] {
			st = st[:len(st)-1]
			continue
		}
		if top.i < len(top.t.args) {
			a := top.t.args[top.i]
			top.i++
			if !a.isC && !s.emitted[a.id] {
				st = append(st, fr{a, 0})
			}
			continue
		}
		tt := top.t
		st = st[:len(st)-1]
		s.emitted[tt.id] = true
		switch {
		case tt.op == "var":
			s.baseCmd(fmt.Sprintf("(declare-const %s %s)", tt.name, tt.sort))
		default:
			if strings.HasPrefix(tt.op, "uf:") && !s.ufs[tt.op] {
				s.ufs[tt.op] = true
				var as []string
				for _, a := range tt.args {
					as = append(as, a.sort.String())
				}
				s.baseCmd(fmt.Sprintf("(declare-fun %s (%s) %s)", tt.op[3:], strings.Join(as, " "), tt.sort))
			}
			s.baseCmd(fmt.Sprintf("(define-fun t%d () %s %s)", tt.id, tt.sort, tt.body()))
		}
	}
}

// Assert adds t to the path condition.
func (s *Session) Assert(t *Term) {
	s.emit(t)
	s.baseCmd("(assert " + t.ref() + ")")
}

type Result int

const (
	Sat Result = iota
	Unsat
	Unknown
)

func (r Result) String() string { return [...]string{"sat", "unsat", "unknown"}[r] }

func (s *Session) check() Result {
	t0 := time.Now()
	s.cur.send("(check-sat)")
	l := s.cur.readLine()
	for l == "" {
		l = s.cur.readLine()
	}
	d := time.Since(t0).Nanoseconds()
	if s.cur.name == "cvc5" {
		atomic.AddInt64(&Stats.NanosCVC, d)
	} else {
		atomic.AddInt64(&Stats.NanosZ3, d)
	}
	atomic.AddInt64(&Stats.Queries, 1)
	s.nqueries++
	if s.cur.dead {
		atomic.AddInt64(&Stats.Unknown, 1)
		s.restart()
		return Unknown
	}
	switch l {
	case "sat":
		atomic.AddInt64(&Stats.Sat, 1)
		return Sat
	case "unsat":
		atomic.AddInt64(&Stats.Unsat, 1)
		return Unsat
	case "unknown", "timeout":
		atomic.AddInt64(&Stats.Unknown, 1)
		return Unknown
	}
	atomic.AddInt64(&Stats.Errors, 1)
	fmt.Fprintf(os.Stderr, "solver %s: unexpected answer %q\n", s.cur.name, l)
	if strings.Contains(l, "solver died") {
		// a crashed back end is an inconclusive query, not a verdict
		s.cur.dead = true
		s.restart()
	}
	return Unknown
}

// restart replaces a killed solver process and replays the path-level
// commands; the caller's inner (push 1) scope is re-opened empty, its
// matching (pop 1) then closes it.
func (s *Session) restart() {
	name := s.cur.name
	np, err := startProc(name, s.w.ex.opt.TimeoutMs)
	if err != nil {
		panic(engineBug{"cannot restart solver: " + err.Error()})
	}
	if s.cur == s.w.z3 {
		s.w.z3 = np
	} else {
		s.w.cvc5 = np
	}
	s.cur = np
	s.cur.send("(push 1)")
	for _, c := range s.base {
		s.cur.send(c)
	}
	s.cur.send("(push 1)")
}

// CheckWith asks whether pc ∧ extra... is satisfiable. If wantModel and sat,
// the model of the given terms is returned.
func (s *Session) CheckWith(extra []*Term, model []*Term) (Result, map[*Term]uint64) {
	for _, e := range extra {
		s.emit(e)
	}
	for _, m := range model {
		s.emit(m)
	}
	s.cur.send("(push 1)")
	for _, e := range extra {
		s.cur.send("(assert " + e.ref() + ")")
	}
	r := s.check()
	if r == Unknown && !s.cur.dead {
		// A long incremental session can make an otherwise easy query slow:
		// retry once in a fresh solver process that only knows this path.
		s.cur.dead = true
		s.cur.cmd.Process.Kill()
		s.restart()
		for _, e := range extra {
			s.cur.send("(assert " + e.ref() + ")")
		}
		atomic.AddInt64(&Stats.Unknown, -1)
		r = s.check()
	}
	var mv map[*Term]uint64
	if r == Sat && len(model) > 0 {
		mv = s.getValues(model)
	}
	s.cur.send("(pop 1)")
	return r, mv
}

func (s *Session) getValues(ts []*Term) map[*Term]uint64 {
	res := map[*Term]uint64{}
	const chunk = 200
	for i := 0; i < len(ts); i += chunk {
		j := i + chunk
		if j > len(ts) {
			j = len(ts)
		}
		var names []string
		var need []*Term
		for _, t := range ts[i:j] {
			if t.isC {
				res[t] = t.cv
				continue
			}
			names = append(names, t.ref())
			need = append(need, t)
		}
		if len(need) == 0 {
			continue
		}
		s.cur.send("(get-value (" + strings.Join(names, " ") + "))")
		txt := s.cur.readSexp()
		if strings.HasPrefix(txt, "(error") {
			atomic.AddInt64(&Stats.Errors, 1)
			panic(engineBug{"get-value: " + txt})
		}
		sx, _ := parseSexp(txt, 0)
		if len(sx.kids) != len(need) {
			panic(engineBug{"get-value: arity mismatch: " + txt})
		}
		for k, t := range need {
			pair := sx.kids[k]
			if len(pair.kids) != 2 {
				panic(engineBug{"get-value: bad pair: " + txt})
			}
			v, ok := parseValue(pair.kids[1], t.sort)
			if !ok {
				panic(engineBug{"get-value: cannot parse " + pair.kids[1].String()})
			}
			res[t] = v
		}
	}
	return res
}

// ---- s-expressions

type sexp struct {
	atom string
	kids []*sexp
	list bool
}

func (s *sexp) String() string {
	if !s.list {
		return s.atom
	}
	var ps []string
	for _, k := range s.kids {
		ps = append(ps, k.String())
	}
	return "(" + strings.Join(ps, " ") + ")"
}

func parseSexp(s string, i int) (*sexp, int) {
	for i < len(s) && (s[i] == ' ' || s[i] == '\n' || s[i] == '\t' || s[i] == '\r') {
		i++
	}
	if i >= len(s) {
		return &sexp{}, i
	}
	if s[i] == '(' {
		n := &sexp{list: true}
		i++
		for {
			for i < len(s) && (s[i] == ' ' || s[i] == '\n' || s[i] == '\t' || s[i] == '\r') {
				i++
			}
			if i >= len(s) {
				return n, i
			}
			if s[i] == ')' {
				return n, i + 1
			}
			var k *sexp
			k, i = parseSexp(s, i)
			n.kids = append(n.kids, k)
		}
	}
	if s[i] == '"' {
		j := i + 1
		for j < len(s) && s[j] != '"' {
			j++
		}
		return &sexp{atom: s[i : j+1]}, j + 1
	}
	j := i
	for j < len(s) && !strings.ContainsRune(" \n\t\r()", rune(s[j])) {
		j++
	}
	return &sexp{atom: s[i:j]}, j
}

func parseBVAtom(a string) (uint64, int, bool) {
	if strings.HasPrefix(a, "#x") {
		v, err := strconv.ParseUint(a[2:], 16, 64)
		return v, 4 * (len(a) - 2), err == nil
	}
	if strings.HasPrefix(a, "#b") {
		v, err := strconv.ParseUint(a[2:], 2, 64)
		return v, len(a) - 2, err == nil
	}
	return 0, 0, false
}

func parseValue(x *sexp, so Sort) (uint64, bool) {
	switch so.k {
	case sBool:
		if x.atom == "true" {
			return 1, true
		}
		if x.atom == "false" {
			return 0, true
		}
	case sBV:
		if !x.list {
			v, _, ok := parseBVAtom(x.atom)
			return v, ok
		}
		// (_ bv123 64)
		if len(x.kids) == 3 && x.kids[0].atom == "_" && strings.HasPrefix(x.kids[1].atom, "bv") {
			v, err := strconv.ParseUint(x.kids[1].atom[2:], 10, 64)
			return v, err == nil
		}
	case sFP:
		eb, sb := uint(11), uint(52)
		if so.w == 32 {
			eb, sb = 8, 23
		}
		if x.list && len(x.kids) == 4 && x.kids[0].atom == "fp" {
			s, _, ok1 := parseBVAtom(x.kids[1].atom)
			e, _, ok2 := parseBVAtom(x.kids[2].atom)
			m, _, ok3 := parseBVAtom(x.kids[3].atom)
			return s<<(eb+sb) | e<<sb | m, ok1 && ok2 && ok3
		}
		if x.list && len(x.kids) == 4 && x.kids[0].atom == "_" {
			expAll := (uint64(1)<<eb - 1) << sb
			switch x.kids[1].atom {
			case "+zero":
				return 0, true
			case "-zero":
				return 1 << (eb + sb), true
			case "+oo":
				return expAll, true
			case "-oo":
				return 1<<(eb+sb) | expAll, true
			case "NaN":
				return expAll | 1<<(sb-1), true
			}
		}
	}
	return 0, false
}
