// Thread model for C11: threads registered with sv.Go run to completion one
// after the other in a solver-independent choice of orders; every access to
// a heap cell or map by a thread is logged with the locks held, and a
// predictive race query (timestamps per event, program order, mutual
// exclusion of critical sections of the same mutex) is given to the solver
// for every conflicting pair of accesses.

package symex

import (
	"fmt"
	"go/token"
	"sort"
)

type thrAccess struct {
	idx   int      // event index within the thread
	locks []*value // mutexes held
	fn    string   // function performing the access
	sig   string   // the set of locks held, as text
}

// cellLog keeps, per thread, the first read and the first write of the
// cell under every distinct set of held locks (an access made after the
// lock was released must not hide behind an earlier one made under it).
type cellLog struct {
	reads  map[int][]*thrAccess
	writes map[int][]*thrAccess
}

type critSec struct {
	m          *value
	begin, end int
}

type threadState struct {
	fn     value
	events int
	held   []*value
	open   map[*value]int // mutex -> begin event
	secs   []critSec
}

type threadModel struct {
	threads []*threadState
	cur     int // 1-based index of the running thread, 0 = none
	cells   map[interface{}]*cellLog
	order   []int
	// sync.Pool hand-overs between threads: the Put happens before the Get
	// that received the object (the only ordering a Pool gives)
	poolEdges []poolEdge
}

type poolEdge struct{ pt, pidx, gt, gidx int }

// poolItem is an object sitting in a sync.Pool.
type poolItem struct {
	v      value
	thread int // thread that put it (0: outside the thread model)
	idx    int // its Put event
}

// poolPut / poolGet model sync.Pool: Get hands out the object that has been
// in the pool longest or - a fork - calls New (a real Pool may drop objects
// at any time).
func (p *Path) poolPut(pool *value, v value) {
	it := poolItem{v: v}
	if tm := p.tm; tm != nil && tm.cur != 0 {
		th := tm.threads[tm.cur-1]
		th.events++
		it.thread, it.idx = tm.cur, th.events
	}
	p.pools[pool] = append(p.pools[pool], it)
}

func (p *Path) poolGet(pool *value) (value, bool) {
	items := p.pools[pool]
	if len(items) == 0 {
		return nil, false
	}
	if p.choice(2) == 1 {
		return nil, false
	}
	it := items[0]
	p.pools[pool] = items[1:]
	if tm := p.tm; tm != nil && tm.cur != 0 && it.thread != 0 && it.thread != tm.cur {
		th := tm.threads[tm.cur-1]
		th.events++
		tm.poolEdges = append(tm.poolEdges, poolEdge{it.thread, it.idx, tm.cur, th.events})
	}
	return it.v, true
}

func (p *Path) logAccess(addr interface{}, write bool, fr *frame) {
	tm := p.tm
	if tm == nil || tm.cur == 0 || addr == nil {
		return
	}
	th := tm.threads[tm.cur-1]
	cl := tm.cells[addr]
	if cl == nil {
		cl = &cellLog{reads: map[int][]*thrAccess{}, writes: map[int][]*thrAccess{}}
		tm.cells[addr] = cl
	}
	m := cl.reads
	if write {
		m = cl.writes
	}
	sig := fmt.Sprint(th.held)
	for _, a := range m[tm.cur] {
		if a.sig == sig {
			return
		}
	}
	th.events++
	name := ""
	if fr != nil && fr.fn != nil {
		name = fr.fn.String()
	}
	m[tm.cur] = append(m[tm.cur], &thrAccess{idx: th.events, locks: append([]*value{}, th.held...), fn: name, sig: sig})
}

func (p *Path) lockEvent(m *value, acquire bool) {
	tm := p.tm
	if tm == nil || tm.cur == 0 {
		return
	}
	th := tm.threads[tm.cur-1]
	th.events++
	if acquire {
		for _, h := range th.held {
			if h == m {
				panic(targetPanic{iface{p.w.i.runtimeErrorString, "fatal error: all goroutines are asleep - deadlock! (mutex locked twice by one goroutine)"}})
			}
		}
		th.held = append(th.held, m)
		th.open[m] = th.events
		return
	}
	for i, h := range th.held {
		if h == m {
			th.held = append(th.held[:i:i], th.held[i+1:]...)
			th.secs = append(th.secs, critSec{m, th.open[m], th.events})
			delete(th.open, m)
			return
		}
	}
}

// svGo registers a thread body.
func (p *Path) svGo(fn value) {
	if p.tm == nil {
		p.tm = &threadModel{cells: map[interface{}]*cellLog{}}
	}
	p.tm.threads = append(p.tm.threads, &threadState{fn: fn, open: map[*value]int{}})
}

// svWait runs the registered threads in a chosen order and then looks for
// data races among their accesses.
func (p *Path) svWait(fr *frame) {
	tm := p.tm
	if tm == nil || len(tm.threads) == 0 {
		return
	}
	n := len(tm.threads)
	rest := make([]int, n)
	for i := range rest {
		rest[i] = i + 1
	}
	for len(rest) > 0 {
		c := 0
		if len(rest) > 1 {
			c = p.choice(len(rest))
		}
		t := rest[c]
		rest = append(rest[:c:c], rest[c+1:]...)
		tm.order = append(tm.order, t)
		tm.cur = t
		call(fr.i, fr, token.NoPos, tm.threads[t-1].fn, nil)
		tm.cur = 0
	}
	p.findRaces()
	// a second Wait starts a new set of threads
	p.tm = nil
}

// findRaces asks the solver, for every conflicting pair of accesses, whether
// a schedule exists in which they are adjacent.
func (p *Path) findRaces() {
	tm := p.tm
	type pair struct {
		addr   interface{}
		ta, tb int
		a, b   *thrAccess
		what   string
	}
	var pairs []pair
	var addrs []interface{}
	for a := range tm.cells {
		addrs = append(addrs, a)
	}
	// deterministic order: by first access (thread, idx)
	key := func(a interface{}) string {
		cl := tm.cells[a]
		best := ""
		for t, xs := range cl.writes {
			for _, x := range xs {
				k := fmt.Sprintf("%d.%06d", t, x.idx)
				if best == "" || k < best {
					best = k
				}
			}
		}
		for t, xs := range cl.reads {
			for _, x := range xs {
				k := fmt.Sprintf("%d.%06d", t, x.idx)
				if best == "" || k < best {
					best = k
				}
			}
		}
		return best
	}
	sort.Slice(addrs, func(i, j int) bool { return key(addrs[i]) < key(addrs[j]) })
	for _, ad := range addrs {
		cl := tm.cells[ad]
		for ta, was := range cl.writes {
			for _, wa := range was {
				for tb, wbs := range cl.writes {
					if ta < tb {
						for _, wb := range wbs {
							pairs = append(pairs, pair{ad, ta, tb, wa, wb, "write/write"})
						}
					}
				}
				for tb, rbs := range cl.reads {
					if ta != tb {
						for _, rb := range rbs {
							pairs = append(pairs, pair{ad, ta, tb, wa, rb, "write/read"})
						}
					}
				}
			}
		}
	}
	sort.SliceStable(pairs, func(i, j int) bool {
		if pairs[i].ta != pairs[j].ta {
			return pairs[i].ta < pairs[j].ta
		}
		if pairs[i].a.idx != pairs[j].a.idx {
			return pairs[i].a.idx < pairs[j].a.idx
		}
		if pairs[i].tb != pairs[j].tb {
			return pairs[i].tb < pairs[j].tb
		}
		return pairs[i].b.idx < pairs[j].b.idx
	})
	p.racePairs += len(pairs)
	reported := map[string]bool{}
	checked := 0
	for _, pr := range pairs {
		sig := pr.a.fn + "|" + pr.b.fn + "|" + pr.what
		if reported[sig] {
			continue
		}
		checked++
		if checked > 60 {
			break
		}
		if p.raceQuery(pr.ta, pr.a, pr.tb, pr.b) {
			reported[sig] = true
			p.races = append(p.races, fmt.Sprintf("%s race: %s (goroutine %d) and %s (goroutine %d), no common lock", pr.what, pr.a.fn, pr.ta, pr.b.fn, pr.tb))
		}
	}
}

// raceQuery: is there a schedule consistent with program order and mutual
// exclusion in which the two accesses are adjacent?
func (p *Path) raceQuery(ta int, a *thrAccess, tb int, b *thrAccess) bool {
	tm := p.tm
	ts := p.ts
	p.raceN++
	w := 16
	stamp := func(t, idx int) *Term {
		return ts.Var(fmt.Sprintf("k_race%d_t%d_e%d", p.raceN, t, idx), bvSort(w))
	}
	var cons []*Term
	var all []*Term
	// Lock-protected communication observed in this run: thread X wrote a
	// cell inside a critical section and thread Y, which ran later, read it
	// inside a critical section of the same mutex. A predicted schedule must
	// keep those reads after those writes (each read sees the same write),
	// otherwise the threads would not have executed these events at all.
	pos := map[int]int{}
	for i, t := range tm.order {
		pos[t] = i
	}
	type dep struct{ wt, widx, rt, ridx int }
	var deps []dep
	extra := map[int]map[int]bool{ta: {}, tb: {}}
	common := func(x, y []*value) bool {
		for _, p1 := range x {
			for _, p2 := range y {
				if p1 == p2 {
					return true
				}
			}
		}
		return false
	}
	for _, cl := range tm.cells {
		for _, pr := range [][2]int{{ta, tb}, {tb, ta}} {
			wt, rt := pr[0], pr[1]
			if pos[wt] > pos[rt] {
				continue
			}
			for _, wa := range cl.writes[wt] {
				for _, rb := range cl.reads[rt] {
					if !common(wa.locks, rb.locks) {
						continue
					}
					if len(deps) < 200 {
						deps = append(deps, dep{wt, wa.idx, rt, rb.idx})
						extra[wt][wa.idx] = true
						extra[rt][rb.idx] = true
					}
				}
			}
		}
	}
	for _, pe := range tm.poolEdges {
		if (pe.pt == ta && pe.gt == tb) || (pe.pt == tb && pe.gt == ta) {
			deps = append(deps, dep{pe.pt, pe.pidx, pe.gt, pe.gidx})
			extra[pe.pt][pe.pidx] = true
			extra[pe.gt][pe.gidx] = true
		}
	}
	for _, t := range []int{ta, tb} {
		th := tm.threads[t-1]
		// relevant events of the thread in program order
		idxs := map[int]bool{}
		for _, s := range th.secs {
			idxs[s.begin] = true
			idxs[s.end] = true
		}
		for i := range extra[t] {
			idxs[i] = true
		}
		if t == ta {
			idxs[a.idx] = true
		} else {
			idxs[b.idx] = true
		}
		var order []int
		for i := range idxs {
			order = append(order, i)
		}
		sort.Ints(order)
		for k := range order {
			all = append(all, stamp(t, order[k]))
			if k > 0 {
				cons = append(cons, ts.BvRel("bvult", stamp(t, order[k-1]), stamp(t, order[k])))
			}
		}
	}
	for _, d := range deps {
		cons = append(cons, ts.BvRel("bvult", stamp(d.wt, d.widx), stamp(d.rt, d.ridx)))
	}
	// mutual exclusion
	for _, sa := range tm.threads[ta-1].secs {
		for _, sb := range tm.threads[tb-1].secs {
			if sa.m == sb.m {
				cons = append(cons, ts.Or(ts.BvRel("bvult", stamp(ta, sa.end), stamp(tb, sb.begin)), ts.BvRel("bvult", stamp(tb, sb.end), stamp(ta, sa.begin))))
			}
		}
	}
	// distinct timestamps, bounded
	for i := range all {
		cons = append(cons, ts.BvRel("bvult", all[i], ts.BV(1000, w)))
		for j := i + 1; j < len(all); j++ {
			cons = append(cons, ts.Not(ts.Eq(all[i], all[j])))
		}
	}
	// adjacency of the two accesses (either order)
	ea, eb := stamp(ta, a.idx), stamp(tb, b.idx)
	cons = append(cons, ts.Or(ts.Eq(ts.BvBin("bvadd", ea, ts.BV(1, w)), eb), ts.Eq(ts.BvBin("bvadd", eb, ts.BV(1, w)), ea)))
	r, _ := p.sess.CheckWith(cons, nil)
	p.raceQueries++
	return r == Sat
}
