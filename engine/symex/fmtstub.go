// A small model of package fmt over interpreter values. Concrete arguments
// are converted and formatted by the real fmt; symbolic ones are rendered
// by the decimal model (%d), by forking (%t) or by bounded enumeration.

package symex

import (
	"fmt"
	"go/token"
	"go/types"
	"math"
	"strings"
)

type fmtPiece struct {
	lit  string
	spec string // flags/width/precision
	verb rune
}

func parseFormat(f string) []fmtPiece {
	var ps []fmtPiece
	i := 0
	for i < len(f) {
		j := strings.IndexByte(f[i:], '%')
		if j < 0 {
			ps = append(ps, fmtPiece{lit: f[i:]})
			break
		}
		if j > 0 {
			ps = append(ps, fmtPiece{lit: f[i : i+j]})
		}
		i += j + 1
		st := i
		for i < len(f) && strings.ContainsRune("+-# 0123456789.*[]", rune(f[i])) {
			i++
		}
		if i >= len(f) {
			ps = append(ps, fmtPiece{lit: "%!(NOVERB)"})
			break
		}
		r, sz := rune(f[i]), 1
		if r >= 0x80 {
			rs := []rune(f[i:])
			r, sz = rs[0], len(string(rs[0]))
		}
		if r == '%' {
			ps = append(ps, fmtPiece{lit: "%"})
		} else {
			ps = append(ps, fmtPiece{spec: f[st:i], verb: r})
		}
		i += sz
	}
	return ps
}

// methodString calls Error() or String() on v if its type has one.
func (fr *frame) methodString(t types.Type, v value) (value, bool) {
	if t == nil {
		return nil, false
	}
	for _, name := range []string{"Error", "String"} {
		ms := fr.i.prog.MethodSets.MethodSet(t)
		for k := 0; k < ms.Len(); k++ {
			sel := ms.At(k)
			if sel.Obj().Name() != name {
				continue
			}
			sig := sel.Type().(*types.Signature)
			if sig.Params().Len() != 0 || sig.Results().Len() != 1 {
				continue
			}
			fn := fr.i.prog.MethodValue(sel)
			if fn == nil {
				continue
			}
			res := call(fr.i, fr, token.NoPos, fn, []value{v})
			if isStr(res) {
				return res, true
			}
		}
	}
	return nil, false
}

// native converts a concrete interpreter value to a Go value for fmt.
func (fr *frame) native(t types.Type, v value, depth int) interface{} {
	switch x := v.(type) {
	case nil:
		return nil
	case bool, int, int8, int16, int32, int64, uint, uint8, uint16, uint32, uint64, uintptr, float32, float64, complex64, complex128, string:
		return x
	case iface:
		if x.t == nil {
			return nil
		}
		if s, ok := fr.methodString(x.t, x.v); ok {
			if cs, ok := s.(string); ok {
				return fmtStringer(cs)
			}
		}
		return fr.native(x.t, x.v, depth+1)
	case []value:
		if depth > 3 {
			return "[...]"
		}
		var et types.Type
		if st, ok := t.Underlying().(*types.Slice); ok {
			et = st.Elem()
		}
		// []byte prints specially
		if et != nil && isByteElem(et) {
			bs := make([]byte, len(x))
			for i := range x {
				if b, ok := x[i].(uint8); ok {
					bs[i] = b
				}
			}
			return bs
		}
		r := make([]interface{}, len(x))
		for i := range x {
			r[i] = fr.native(et, x[i], depth+1)
		}
		return r
	case structure:
		if depth > 3 {
			return "{...}"
		}
		var parts []string
		st, _ := t.Underlying().(*types.Struct)
		for i := range x {
			var ft types.Type
			if st != nil && i < st.NumFields() {
				ft = st.Field(i).Type()
			}
			parts = append(parts, fmt.Sprint(fr.native(ft, x[i], depth+1)))
		}
		return fmtStringer("{" + strings.Join(parts, " ") + "}")
	case *value:
		if x == nil {
			return fmtStringer("<nil>")
		}
		// an address: every distinct cell prints differently (code whose
		// output contains addresses then differs between two equal objects,
		// which is what C19 looks for); the numbering is per path
		p := fr.i.path
		if p.addrIDs == nil {
			p.addrIDs = map[*value]int{}
		}
		id, ok := p.addrIDs[x]
		if !ok {
			id = len(p.addrIDs) + 1
			p.addrIDs[x] = id
		}
		return fmtStringer(fmt.Sprintf("0xc%09x", 0x10000+id*0x20))
	case *omap:
		return fmtStringer(fmt.Sprintf("map[%d entries]", x.len()))
	case rtype:
		return fmtStringer(x.t.String())
	}
	if isSym(v) {
		return fmtStringer("<symbolic>")
	}
	return fmtStringer(fmt.Sprintf("<%T>", v))
}

type fmtStringer string

func (s fmtStringer) String() string { return string(s) }

func typeString(t types.Type) string {
	if t == nil {
		return "<nil>"
	}
	return types.TypeString(t, func(p *types.Package) string { return p.Name() })
}

// fmtArg renders one argument for one verb.
func (fr *frame) fmtArg(pc fmtPiece, arg value, lenient bool) value {
	p := fr.i.path
	it, _ := arg.(iface)
	if pc.verb == 'T' {
		return typeString(it.t)
	}
	v := it.v
	// Stringer/error with symbolic content: call the method
	if it.t != nil && (pc.verb == 's' || pc.verb == 'v' || pc.verb == 'q') {
		if _, basic := it.t.Underlying().(*types.Basic); !basic || hasMethods(fr, it.t) {
			if s, ok := fr.methodString(it.t, v); ok {
				if pc.verb == 'q' {
					if cs, ok := s.(string); ok {
						return fmt.Sprintf("%"+pc.spec+"q", cs)
					}
					return mkStr(append(append([]value{uint8('"')}, strBytes(s)...), uint8('"')))
				}
				if pc.spec == "" {
					return s
				}
				if cs, ok := s.(string); ok {
					return fmt.Sprintf("%"+pc.spec+"s", cs)
				}
				return s
			}
		}
	}
	switch x := v.(type) {
	case symInt:
		if lenient {
			// error texts are never inspected: do not materialise digits
			return "<int>"
		}
		switch pc.verb {
		case 'd', 'v':
			if pc.spec == "" {
				return p.itoa(x)
			}
		case 'c':
			if pc.spec == "" {
				return fr.encodeRunes([]value{p.symConvNumeric(x, types.Int32)})
			}
		}
		if lenient {
			return "<int>"
		}
		n := p.concreteInt(x, p.w.ex.opt.ByteEnum, "fmt verb on a symbolic integer")
		return fmt.Sprintf("%"+pc.spec+string(pc.verb), concInt(uint64(n), x.k))
	case symBool:
		if lenient {
			return "<bool>"
		}
		return fmt.Sprintf("%"+pc.spec+string(pc.verb), p.decide(x.t))
	case symFloat:
		if lenient {
			return "<float>"
		}
		bits := p.concretize(x.t, p.w.ex.opt.FloatEnum, "fmt verb on a symbolic float")
		if x.k == types.Float32 {
			return fmt.Sprintf("%"+pc.spec+string(pc.verb), math.Float32frombits(uint32(bits)))
		}
		return fmt.Sprintf("%"+pc.spec+string(pc.verb), math.Float64frombits(bits))
	case symString:
		if lenient && x.tok != nil && !x.tok.done {
			return "<int>"
		}
		if (pc.verb == 's' || pc.verb == 'v') && pc.spec == "" {
			return x
		}
		if lenient {
			return mkStr(append(append([]value{uint8('"')}, strBytes(x)...), uint8('"')))
		}
		return fmt.Sprintf("%"+pc.spec+string(pc.verb), p.concreteString(x, "fmt verb on a symbolic string"))
	}
	if containsSym(v, 0) {
		if lenient {
			return "<composite>"
		}
		// %v of a struct with symbolic leaves: {f1 f2 ...}, each field as %v
		if st, ok := v.(structure); ok && pc.verb == 'v' && pc.spec == "" && it.t != nil {
			if stt, ok := it.t.Underlying().(*types.Struct); ok && stt.NumFields() == len(st) {
				out := []value{uint8('{')}
				for k := range st {
					if k > 0 {
						out = append(out, uint8(' '))
					}
					fv := st[k]
					ft := stt.Field(k).Type()
					if fi, isI := fv.(iface); isI {
						out = append(out, strBytes(fr.fmtArg(pc, fi, lenient))...)
					} else {
						out = append(out, strBytes(fr.fmtArg(pc, iface{t: ft, v: fv}, lenient))...)
					}
				}
				return mkStr(append(out, uint8('}')))
			}
		}
		if p.printing {
			// output nobody may look at precisely (StdoutEnd refuses)
			p.stdoutApprox = true
			return "<composite>"
		}
		p.unsupported("fmt of a composite value with symbolic leaves")
	}
	nat := fr.native(it.t, v, 0)
	if it.t == nil {
		nat = nil
	}
	return fmt.Sprintf("%"+pc.spec+string(pc.verb), nat)
}

func hasMethods(fr *frame, t types.Type) bool {
	return fr.i.prog.MethodSets.MethodSet(t).Len() > 0
}

func containsSym(v value, depth int) bool {
	if isSym(v) {
		return true
	}
	if depth > 4 {
		return false
	}
	switch x := v.(type) {
	case iface:
		return containsSym(x.v, depth+1)
	case []value:
		for _, e := range x {
			if containsSym(e, depth+1) {
				return true
			}
		}
	case structure:
		for _, e := range x {
			if containsSym(e, depth+1) {
				return true
			}
		}
	case array:
		for _, e := range x {
			if containsSym(e, depth+1) {
				return true
			}
		}
	}
	return false
}

func (fr *frame) sprintf(format value, args []value, lenient bool) value {
	p := fr.i.path
	f, ok := format.(string)
	if !ok {
		if lenient {
			return "<format>"
		}
		f = p.concreteString(format, "symbolic format string")
	}
	var out []value
	ai := 0
	pcs := parseFormat(f)
	if len(pcs) == 1 && pcs[0].verb != 0 && len(args) == 1 && !strings.ContainsAny(pcs[0].spec, "*[") {
		// a lone verb: keep lazily rendered integers lazy
		return fr.fmtArg(pcs[0], args[0], lenient)
	}
	for _, pc := range pcs {
		if pc.verb == 0 {
			out = append(out, strBytes(pc.lit)...)
			continue
		}
		if strings.ContainsAny(pc.spec, "*[") {
			p.unsupported("fmt: indexed or star width")
		}
		if ai >= len(args) {
			out = append(out, strBytes("%!"+string(pc.verb)+"(MISSING)")...)
			continue
		}
		out = append(out, strBytes(fr.fmtArg(pc, args[ai], lenient))...)
		ai++
	}
	if ai < len(args) {
		out = append(out, strBytes("%!(EXTRA ")...)
		for k := ai; k < len(args); k++ {
			if k > ai {
				out = append(out, strBytes(", ")...)
			}
			it, _ := args[k].(iface)
			if it.t == nil {
				out = append(out, strBytes("<nil>")...)
				continue
			}
			out = append(out, strBytes(typeString(it.t)+"=")...)
			out = append(out, strBytes(fr.fmtArg(fmtPiece{verb: 'v'}, args[k], lenient))...)
		}
		out = append(out, uint8(')'))
	}
	return mkStr(out)
}

func varargs(v value) []value {
	if v == nil {
		return nil
	}
	return v.([]value)
}

func extSprintf(fr *frame, args []value) value {
	return fr.sprintf(args[0], varargs(args[1]), false)
}

func extErrorf(fr *frame, args []value) value {
	return fr.mkError(fr.sprintf(args[0], varargs(args[1]), true))
}

func (p *Path) writeStdout(s value) {
	p.stdoutV = append(p.stdoutV, s)
}

// outLen is the byte count a Print function returns. For a lazily rendered
// integer it is a fresh symbolic count (1..20 bytes), so that the digits
// are only materialised if the program really looks at them.
func (p *Path) outLen(s value) value {
	if ss, ok := s.(symString); ok && ss.tok != nil && !ss.tok.done {
		p.itoaN++
		n := p.ts.Var(fmt.Sprintf("k_outlen_%d", p.itoaN), bvSort(64))
		p.take(p.ts.BvRel("bvuge", n, p.ts.BV(1, 64)))
		p.take(p.ts.BvRel("bvule", n, p.ts.BV(20, 64)))
		return p.mkInt(n, types.Int)
	}
	return strLen(s)
}

func extPrintf(fr *frame, args []value) value {
	fr.i.path.printing = true
	defer func() { fr.i.path.printing = false }()
	s := fr.sprintf(args[0], varargs(args[1]), false)
	fr.i.path.writeStdout(s)
	return tuple{fr.i.path.outLen(s), iface{}}
}

func (fr *frame) sprint(args []value, ln bool) value {
	var out []value
	prevStr := false
	for i, a := range args {
		it, _ := a.(iface)
		isS := isStr(it.v)
		if i > 0 && (ln || (!isS && !prevStr)) {
			out = append(out, uint8(' '))
		}
		out = append(out, strBytes(fr.fmtArg(fmtPiece{verb: 'v'}, a, false))...)
		prevStr = isS
	}
	if ln {
		out = append(out, uint8('\n'))
	}
	return mkStr(out)
}

func extPrint(fr *frame, args []value) value {
	s := fr.sprint(varargs(args[0]), false)
	fr.i.path.writeStdout(s)
	return tuple{fr.i.path.outLen(s), iface{}}
}

func extPrintln(fr *frame, args []value) value {
	s := fr.sprint(varargs(args[0]), true)
	fr.i.path.writeStdout(s)
	return tuple{fr.i.path.outLen(s), iface{}}
}

func extSprint(fr *frame, args []value) value   { return fr.sprint(varargs(args[0]), false) }
func extSprintln(fr *frame, args []value) value { return fr.sprint(varargs(args[0]), true) }

// toStream decides where an Fprint* goes. Standard output is the stdout
// buffer; any other *os.File written by library code is an effect C10
// excludes (the driver may write where it likes: discarded); other writers
// are outside the model.
func (fr *frame) toStream(w value, what string) bool {
	if x, ok := w.(iface); ok {
		if ptr, ok := x.v.(*value); ok {
			if ptr == fr.i.stdStreams["Stdout"] {
				return true
			}
			if x.t != nil && x.t.String() == "*os.File" {
				if callerIsDriver(fr.caller) {
					return false
				}
				name := what + " to a file other than standard output"
				if ptr == fr.i.stdStreams["Stderr"] {
					name = "use of os.Stderr"
				}
				fr.i.forbidden(name, "output other than standard output", fr.caller)
			}
		}
	}
	fr.i.path.unsupported("%s to a writer that is not a file", what)
	return false
}

func extFprintf(fr *frame, args []value) value {
	out := fr.toStream(args[0], "fmt.Fprintf")
	s := fr.sprintf(args[1], varargs(args[2]), false)
	if out {
		fr.i.path.writeStdout(s)
	}
	return tuple{fr.i.path.outLen(s), iface{}}
}

func extFprintln(fr *frame, args []value) value {
	out := fr.toStream(args[0], "fmt.Fprintln")
	s := fr.sprint(varargs(args[1]), true)
	if out {
		fr.i.path.writeStdout(s)
	}
	return tuple{fr.i.path.outLen(s), iface{}}
}
