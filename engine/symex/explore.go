// Path exploration by decision-prefix re-execution.

package symex

import (
	"fmt"
	"os"
	"sort"
	"strings"
	"sync"
	"sync/atomic"
)

// engine-level aborts: these panics bypass the interpreted program's
// recover() and end the current path.
type abortKind int

const (
	abInfeasible  abortKind = iota // sv.Assume(false) or infeasible prefix
	abUnsupported                  // outside the encoding: path inconclusive
	abBudget                       // step budget exhausted: truncated
	abDone                         // harness asked to stop the path
)

type abortPath struct {
	kind abortKind
	why  string
}

type engineBug struct{ msg string }

// Options of an exploration.
type Options struct {
	Workers     int
	StepBudget  int64 // interpreted SSA instructions per path
	MaxPaths    int64 // safety cap (0 = none)
	TimeoutMs   int   // per solver query
	ForceSolver string
	Seed        int64
	Verbose     bool
	KnownRegions map[string][]string // assert site -> region names listed as known findings
	StopOnFirst bool
	Tier        string
	Canary      bool
	AllocBound  int // largest symbolic make() size explored
	FloatEnum   int // max distinct float values enumerated by FormatFloat etc.
	ByteEnum    int // max distinct values when a symbolic byte/int must be concrete
	MaxQueries  int // solver queries per path before it counts as truncated
}

// Input is one nondeterministic input of a path.
type Input struct {
	Name string
	Kind string // int64, bool, float64, uint8 ... or "choice"
	T    *Term
	N    int // for choice: arity
}

// Obs is one observation: key and a list of values (concrete Go values or terms).
type Obs struct {
	Key      string
	Vals     []interface{} // concrete or symbolic interpreter values
	noteOnly bool
}

// Candidate violation.
type Candidate struct {
	Site     string
	Harness  string
	Model    map[string]string // input name -> literal
	Decis    []int64
	Known    string // region name if inside a known-finding region
	Note     map[string]string
	PanicMsg string
	Choices  string // the harness's choice vector (shape of the case)
	UF       bool   // the model interprets uninterpreted functions freely
}

// PathResult summarises a finished path.
type PathResult struct {
	Decis     []int64
	End       string // "ok", "infeasible", "unsupported", "budget", "panic"
	UF        bool   // the path's terms contain uninterpreted functions (math.Pow, calendar): its model need not be a real-world input
	Why       string
	Steps     int64
	Queries   int
	Sites     map[string]int
	Cands     []Candidate
	Model     map[string]string // a model of the whole path (for validation/samples)
	ObsPred   []string          // predicted observation log under Model
	Notes     map[string]string
	Funcs     map[string]bool
	Forbidden []string
	Incon     []string // inconclusive asserts (solver unknown)
	Reached   []string
	Params    map[string]int
	Races     []string
	RacePairs int
	RaceQ     int
}

// Path is the state of the path being executed.
type pendingGoroutine struct {
	fn   value
	args []value
}

type Path struct {
	w         *Worker
	ts        *TermStore
	sess      *Session
	prefix    []int64
	decis     []int64
	pc        []*Term
	inputs    []Input
	occ       map[string]int
	pools     map[*value][]poolItem // sync.Pool contents
	pendingGo []pendingGoroutine   // goroutines started by the code under test, not scheduled
	addrIDs   map[*value]int       // printed addresses
	mustTerminate string           // site named by sv.MustTerminate
	obs       []Obs
	sites     map[string]int
	cands     []Candidate
	notes     map[string]string
	regions   map[string]*Term
	steps     int64
	stepBudget int64 // per-path override (Param "engine.msteps")
	known     map[*Term]bool // literals already asserted on this path
	incon     []string
	reached   []string
	forbidden []string
	mapNondet bool
	funcs     map[string]bool
	harness   string
	ctxs       []*ctxState
	threads    []threadRec
	env        map[string]string
	envSym     []envEntry // variables set under a symbolic name
	envOther   string     // value an unlisted variable may hold ("" = unlisted variables are unset)
	envReads   []envEntry // unlisted variables the code asked for and found set
	closed     map[chan value]bool
	cch, och   chan value
	stdoutV    []value
	stdoutMark int
	itoaN      int
	model      map[*Term]uint64 // a model of the current path condition (nil = none)
	memo       map[*Term]*Term
	modelHits  int
	params     map[string]int
	files       map[string]value
	nfiles      int
	stdoutApprox bool
	printing     bool
	tm          *threadModel
	races       []string
	raceN       int
	racePairs   int
	raceQueries int
	zones      []string
	zonePtr    []*value
	zoneOf     map[*value]int
	utcLoc     *value
	pending   [][]int64
	res       *PathResult
}

// Worker owns an interpreter instance and solver processes.
type Worker struct {
	id          int
	ex          *Explorer
	z3          *proc
	cvc5        *proc
	forceSolver string
	i           *interpreter
	z3uses      int
	cvcuses     int
}

func (w *Worker) getCVC5() *proc {
	if w.cvc5 == nil {
		p, err := startProc("cvc5", w.ex.opt.TimeoutMs)
		if err != nil {
			panic(engineBug{"cannot start cvc5: " + err.Error()})
		}
		w.cvc5 = p
	}
	return w.cvc5
}

// Explorer drives all workers.
type Explorer struct {
	opt      Options
	mu       sync.Mutex
	allFuncs map[string]bool
	nres     int
	cond     *sync.Cond
	work     [][]int64
	busy     int
	results  []*PathResult
	paths    int64
	bugs     []string
	stop     bool
	OnResult func(*PathResult)
}

func (p *Path) abort(kind abortKind, why string) {
	panic(abortPath{kind, why})
}

func (p *Path) unsupported(format string, a ...interface{}) {
	panic(abortPath{abUnsupported, fmt.Sprintf(format, a...)})
}

// take records literal t as part of the path condition.
func (p *Path) take(t *Term) {
	if t.isC {
		if !t.boolVal() {
			p.abort(abInfeasible, "constant false")
		}
		return
	}
	if p.known[t] {
		return
	}
	p.known[t] = true
	p.pc = append(p.pc, t)
	p.sess.Assert(t)
	if p.model != nil {
		// keep the cached model only if it satisfies the new literal; new
		// variables (absent from the model) make it unusable too
		if r := p.ts.evalUnder(t, p.model, p.memo); r == nil || !r.isC || !r.boolVal() {
			p.model, p.memo = nil, nil
		}
	}
}

func (p *Path) feasible(t *Term) Result {
	if p.sess.nqueries > p.w.ex.opt.MaxQueries {
		p.abort(abBudget, "solver-query budget of the path exhausted (unbounded symbolic loop?)")
	}
	if t.isC {
		if t.boolVal() {
			return Sat
		}
		return Unsat
	}
	if p.known[t] {
		return Sat
	}
	if p.known[p.ts.Not(t)] {
		return Unsat
	}
	r, _ := p.sess.CheckWith([]*Term{t}, nil)
	return r
}

// modelSays evaluates c under the cached model of the path condition.
func (p *Path) modelSays(c *Term) (val bool, ok bool) {
	if p.model == nil {
		return false, false
	}
	r := p.ts.evalUnder(c, p.model, p.memo)
	if r == nil || !r.isC {
		return false, false
	}
	return r.boolVal(), true
}

// feasibleM is feasible() that also fetches a model when the answer is sat.
func (p *Path) feasibleM(t *Term) (Result, map[*Term]uint64) {
	if p.sess.nqueries > p.w.ex.opt.MaxQueries {
		p.abort(abBudget, "solver-query budget of the path exhausted (unbounded symbolic loop?)")
	}
	if t.isC {
		if t.boolVal() {
			return Sat, nil
		}
		return Unsat, nil
	}
	if p.known[t] {
		return Sat, nil
	}
	if p.known[p.ts.Not(t)] {
		return Unsat, nil
	}
	return p.sess.CheckWith([]*Term{t}, p.ts.vars)
}

// decide forks on a symbolic condition and returns the branch taken.
func (p *Path) decide(c *Term) bool {
	if c.isC {
		return c.boolVal()
	}
	if p.known[c] {
		return true
	}
	nc := p.ts.Not(c)
	if p.known[nc] {
		return false
	}
	idx := len(p.decis)
	if idx < len(p.prefix) {
		d := p.prefix[idx]
		p.decis = append(p.decis, d)
		if d == 1 {
			p.take(c)
		} else {
			p.take(nc)
		}
		// a replayed literal may contradict the cached model
		if p.model != nil {
			if v, ok := p.modelSays(c); !ok || v != (d == 1) {
				p.model, p.memo = nil, nil
			}
		}
		return d == 1
	}
	var ft, ff Result
	var mt, mf map[*Term]uint64
	if v, ok := p.modelSays(c); ok {
		// the current model already witnesses one side
		p.modelHits++
		if v {
			ft = Sat
			ff, mf = p.feasibleM(nc)
		} else {
			ff = Sat
			ft, mt = p.feasibleM(c)
		}
	} else {
		ft, mt = p.feasibleM(c)
		ff, mf = p.feasibleM(nc)
	}
	if ft == Unknown || ff == Unknown {
		// keep both sides; an unknown side is explored and, if it is really
		// infeasible, its assertions are vacuous but never wrong.
		if ft == Unknown {
			ft = Sat
		}
		if ff == Unknown {
			ff = Sat
		}
		p.incon = append(p.incon, "branch feasibility unknown ["+p.choiceString()+"]")
	}
	setModel := func(m map[*Term]uint64) {
		if m != nil {
			p.model, p.memo = m, map[*Term]*Term{}
		} else if v, ok := p.modelSays(c); !ok || !v {
			_ = v
		}
	}
	switch {
	case ft == Sat && ff == Sat:
		alt := append(append([]int64{}, p.decis...), 0)
		p.pending = append(p.pending, alt)
		p.decis = append(p.decis, 1)
		p.take(c)
		if mt != nil {
			setModel(mt)
		} else if v, ok := p.modelSays(c); !ok || !v {
			p.model, p.memo = nil, nil
		}
		return true
	case ft == Sat:
		p.decis = append(p.decis, 1)
		p.take(c)
		if mt != nil {
			setModel(mt)
		} else if v, ok := p.modelSays(c); !ok || !v {
			p.model, p.memo = nil, nil
		}
		return true
	case ff == Sat:
		p.decis = append(p.decis, 0)
		p.take(nc)
		if mf != nil {
			setModel(mf)
		} else if v, ok := p.modelSays(nc); !ok || !v {
			p.model, p.memo = nil, nil
		}
		return false
	}
	p.abort(abInfeasible, "both branches infeasible")
	return false
}

// choice forks n ways without consulting the solver.
type envEntry struct {
	name value
	val  string
}

func (p *Path) choice(n int) int {
	if n <= 0 {
		p.abort(abInfeasible, "choice(0)")
	}
	if n == 1 {
		return 0
	}
	idx := len(p.decis)
	if idx < len(p.prefix) {
		d := p.prefix[idx]
		p.decis = append(p.decis, d)
		return int(d) - 2
	}
	for k := n - 1; k >= 1; k-- {
		alt := append(append([]int64{}, p.decis...), int64(k+2))
		p.pending = append(p.pending, alt)
	}
	p.decis = append(p.decis, 2)
	return 0
}

// concretize enumerates the feasible values of t (at most max of them),
// forking once per value. The value chosen by the solver is stored in the
// decision vector (marker -1, value, taken) so that re-execution does not
// depend on the solver returning the same model again.
func (p *Path) concretize(t *Term, max int, what string) uint64 {
	if t.isC {
		return t.cv
	}
	mk := func(v uint64) *Term {
		switch t.sort.k {
		case sFP:
			return p.ts.Eq(t, p.ts.intern(&Term{op: "const", sort: t.sort, cv: v, isC: true}))
		case sBool:
			return p.ts.Eq(t, p.ts.Bool(v != 0))
		}
		return p.ts.Eq(t, p.ts.BV(v, t.sort.w))
	}
	for n := 0; n < max; n++ {
		idx := len(p.decis)
		if idx < len(p.prefix) {
			if p.prefix[idx] != -1 || idx+2 >= len(p.prefix) {
				panic(engineBug{"concretize: decision prefix mismatch"})
			}
			v, b := uint64(p.prefix[idx+1]), p.prefix[idx+2]
			p.decis = append(p.decis, -1, int64(v), b)
			if b == 1 {
				p.take(mk(v))
				return v
			}
			p.take(p.ts.Not(mk(v)))
			continue
		}
		r, mv := p.sess.CheckWith(nil, []*Term{t})
		if r == Unknown {
			p.unsupported("concretize %s: solver unknown", what)
		}
		if r == Unsat {
			p.abort(abInfeasible, "concretize: no value")
		}
		v := mv[t]
		eq := mk(v)
		if eq.isC {
			return v
		}
		if p.feasible(p.ts.Not(eq)) != Unsat {
			alt := append(append([]int64{}, p.decis...), -1, int64(v), 0)
			p.pending = append(p.pending, alt)
		}
		p.decis = append(p.decis, -1, int64(v), 1)
		p.take(eq)
		return v
	}
	p.unsupported("concretize %s: more than %d feasible values", what, max)
	return 0
}

func (p *Path) step() {
	p.steps++
	if p.stepBudget > 0 {
		if p.steps > p.stepBudget {
			p.abort(abBudget, "instruction budget exhausted")
		}
		return
	}
	if p.steps > p.w.ex.opt.StepBudget {
		p.abort(abBudget, "instruction budget exhausted")
	}
}

func (p *Path) inputName(name string) string {
	n := p.occ[name]
	p.occ[name] = n + 1
	if n == 0 {
		return name
	}
	return fmt.Sprintf("%s#%d", name, n)
}

func sanitize(name string) string {
	var sb strings.Builder
	for _, c := range name {
		switch {
		case c >= 'a' && c <= 'z', c >= 'A' && c <= 'Z', c >= '0' && c <= '9', c == '_':
			sb.WriteRune(c)
		default:
			fmt.Fprintf(&sb, "_%x_", c)
		}
	}
	return "v_" + sb.String()
}

func (p *Path) newInput(name, kind string, s Sort) *Term {
	nm := p.inputName(name)
	t := p.ts.Var(sanitize(nm), s)
	p.inputs = append(p.inputs, Input{Name: nm, Kind: kind, T: t})
	return t
}

// ---- explorer

func NewExplorer(opt Options) *Explorer {
	if opt.Workers <= 0 {
		opt.Workers = 1
	}
	if opt.StepBudget == 0 {
		opt.StepBudget = 3_000_000
	}
	if opt.TimeoutMs == 0 {
		opt.TimeoutMs = 20000
	}
	if opt.AllocBound == 0 {
		opt.AllocBound = 16
	}
	if opt.FloatEnum == 0 {
		opt.FloatEnum = 24
	}
	if opt.MaxQueries == 0 {
		opt.MaxQueries = 6000
	}
	if opt.ByteEnum == 0 {
		opt.ByteEnum = 40
	}
	e := &Explorer{opt: opt}
	e.cond = sync.NewCond(&e.mu)
	return e
}

func (e *Explorer) next() ([]int64, bool) {
	e.mu.Lock()
	defer e.mu.Unlock()
	for {
		if e.stop {
			return nil, false
		}
		if n := len(e.work); n > 0 {
			pre := e.work[n-1]
			e.work = e.work[:n-1]
			e.busy++
			return pre, true
		}
		if e.busy == 0 {
			e.cond.Broadcast()
			return nil, false
		}
		e.cond.Wait()
	}
}

func (e *Explorer) done(res *PathResult, pending [][]int64) {
	e.mu.Lock()
	e.busy--
	e.work = append(e.work, pending...)
	if res != nil {
		// Keep the memory of long explorations flat: the set of executed
		// functions is merged here, and beyond the first 4 000 paths only
		// every 32nd path (plus every path with a candidate, an inconclusive
		// item or an unusual end) keeps its model, predicted observations and
		// notes - those are only used to pick native validation samples.
		if e.allFuncs == nil {
			e.allFuncs = map[string]bool{}
		}
		for f := range res.Funcs {
			e.allFuncs[f] = true
		}
		res.Funcs = nil
		e.nres++
		plain := (res.End == "ok" || res.End == "infeasible") && len(res.Cands) == 0 && len(res.Incon) == 0
		if plain && e.nres > 4000 && e.nres%32 != 0 {
			res.Model, res.ObsPred, res.Notes, res.Reached = nil, nil, nil, nil
		}
		e.results = append(e.results, res)
		if e.OnResult != nil {
			e.OnResult(res)
		}
	}
	n := atomic.AddInt64(&e.paths, 1)
	if n%1000 == 0 && os.Getenv("VCHECK_PROGRESS") != "" {
		fmt.Fprintf(os.Stderr, "  ... %d paths, %d pending prefixes, %d queries\n", n, len(e.work), atomic.LoadInt64(&Stats.Queries))
	}
	if e.opt.MaxPaths > 0 && n >= e.opt.MaxPaths {
		e.stop = true
	}
	if e.opt.StopOnFirst && res != nil && len(res.Cands) > 0 {
		e.stop = true
	}
	e.cond.Broadcast()
	e.mu.Unlock()
}

func (e *Explorer) bug(msg string) {
	e.mu.Lock()
	e.bugs = append(e.bugs, msg)
	e.stop = true
	e.cond.Broadcast()
	e.mu.Unlock()
}

// Run explores harness fn of prog and returns all path results.
func (e *Explorer) Run(ld *Loaded, harness string) ([]*PathResult, []string) {
	e.work = [][]int64{{}}
	var wg sync.WaitGroup
	for k := 0; k < e.opt.Workers; k++ {
		wg.Add(1)
		go func(id int) {
			defer wg.Done()
			w := &Worker{id: id, ex: e, forceSolver: e.opt.ForceSolver}
			// z3 5.1.0 ("z3-new") is the default bit-vector back end: 4.8.12
			// takes tens of seconds for get-value after check-sat on the
			// if-then-else chains this engine produces. VCHECK_BV_SOLVER=z3
			// selects the old one (used by the cross-check).
			sv := "z3-new"
			if v := os.Getenv("VCHECK_BV_SOLVER"); v != "" {
				sv = v
			}
			if e.opt.ForceSolver != "" {
				sv = e.opt.ForceSolver
			}
			z, err := startProc(sv, e.opt.TimeoutMs)
			if err != nil {
				e.bug("cannot start solver: " + err.Error())
				return
			}
			w.z3 = z
			defer func() {
				w.z3.close()
				if w.cvc5 != nil {
					w.cvc5.close()
				}
			}()
			func() {
				defer func() {
					if r := recover(); r != nil {
						e.bug(fmt.Sprintf("worker init: %v", r))
					}
				}()
				w.i = newInterpreter(ld, w)
			}()
			if w.i == nil {
				return
			}
			for {
				pre, ok := e.next()
				if !ok {
					return
				}
				res, pending := w.runPath(ld, harness, pre)
				e.done(res, pending)
			}
		}(k)
	}
	wg.Wait()
	sort.Slice(e.results, func(i, j int) bool { return lessDecis(e.results[i].Decis, e.results[j].Decis) })
	if len(e.results) > 0 {
		e.results[0].Funcs = e.allFuncs // the union, reported once
	}
	return e.results, e.bugs
}

func lessDecis(a, b []int64) bool {
	for i := 0; i < len(a) && i < len(b); i++ {
		if a[i] != b[i] {
			return a[i] < b[i]
		}
	}
	return len(a) < len(b)
}

func dbg(format string, a ...interface{}) {
	if os.Getenv("VCHECK_DEBUG") != "" {
		fmt.Fprintf(os.Stderr, format+"\n", a...)
	}
}
