// The harness API (package zzsv in the code under test) as seen by the engine,
// and the per-path driver.

package symex

import (
	"fmt"
	"go/token"
	"go/types"
	"math"
	"os"
	"runtime"
	"sort"
	"strconv"
	"strings"

	"golang.org/x/tools/go/ssa"
)

const svPkg = "/zzsv"

type ctxState struct {
	k     *Term // cancelled from poll k on
	polls int
}

type threadRec struct{}

func (w *Worker) newPath(prefix []int64, harness string) *Path {
	p := &Path{
		w:       w,
		ts:      newTermStore(),
		prefix:  prefix,
		occ:     map[string]int{},
		pools:   map[*value][]poolItem{},
		sites:   map[string]int{},
		notes:   map[string]string{},
		regions: map[string]*Term{},
		known:   map[*Term]bool{},
		funcs:   map[string]bool{},
		env:     map[string]string{},
		harness: harness,
		closed:  map[chan value]bool{},
		params:  map[string]int{},
	}
	p.sess = w.newSession()
	return p
}


func (p *Path) chanReady(ch chan value) bool {
	if ch == nil {
		return false
	}
	if p.closed[ch] || p.w.i.closedGlobal[ch] {
		return true
	}
	return false
}

func svName(ld *Loaded, typ, meth string) string {
	return "(*" + strings.TrimSuffix(ld.RepoPrefix, "/") + svPkg + "." + typ + ")." + meth
}

// RegisterSV installs the harness API externals for the loaded program.
func RegisterSV(ld *Loaded) {
	reg := func(meth string, f externalFn) { externals[svName(ld, "T", meth)] = f }
	num := func(kind types.BasicKind, kname string) externalFn {
		return func(fr *frame, args []value) value {
			p := fr.i.path
			name := p.concreteString(args[1], "input name")
			switch kind {
			case types.Bool:
				return p.mkBool(p.newInput(name, "bool", boolSort))
			case types.Float64:
				return p.mkFloat(p.newInput(name, "float64", fpSort(64)), types.Float64)
			}
			return p.mkInt(p.newInput(name, kname, bvSort(kindWidth(kind))), kind)
		}
	}
	reg("Int64", num(types.Int64, "int64"))
	reg("Int", num(types.Int, "int"))
	reg("Int32", num(types.Int32, "int32"))
	reg("Uint16", num(types.Uint16, "uint16"))
	reg("Uint64", num(types.Uint64, "uint64"))
	reg("Byte", num(types.Uint8, "uint8"))
	reg("Bool", num(types.Bool, "bool"))
	reg("Float64", num(types.Float64, "float64"))
	reg("Float32bits", num(types.Uint32, "uint32"))
	reg("Bytes", func(fr *frame, args []value) value {
		p := fr.i.path
		name := p.concreteString(args[1], "input name")
		n := int(asInt64(args[2]))
		out := make([]value, n)
		for i := range out {
			out[i] = p.mkInt(p.newInput(fmt.Sprintf("%s[%d]", name, i), "uint8", bvSort(8)), types.Uint8)
		}
		return out
	})
	reg("String", func(fr *frame, args []value) value {
		p := fr.i.path
		name := p.concreteString(args[1], "input name")
		n := int(asInt64(args[2]))
		out := make([]value, n)
		for i := range out {
			out[i] = p.mkInt(p.newInput(fmt.Sprintf("%s[%d]", name, i), "uint8", bvSort(8)), types.Uint8)
		}
		return mkStr(out)
	})
	reg("Choice", func(fr *frame, args []value) value {
		p := fr.i.path
		name := p.concreteString(args[1], "choice name")
		n := int(asInt64(args[2]))
		c := p.choice(n)
		nm := p.inputName(name)
		p.inputs = append(p.inputs, Input{Name: nm, Kind: "choice", N: c})
		return c
	})
	reg("Param", func(fr *frame, args []value) value {
		p := fr.i.path
		name := p.concreteString(args[1], "param name")
		v := int(asInt64(args[2]))
		if p.w.ex.opt.Tier == "thorough" {
			v = int(asInt64(args[3]))
		}
		p.params[name] = v
		p.inputs = append(p.inputs, Input{Name: p.inputName("param:" + name), Kind: "choice", N: v})
		if name == "engine.msteps" {
			// a harness with long concrete stretches (deep recursion, long
			// histories) states its own instruction budget, in millions
			p.stepBudget = int64(v) * 1_000_000
		}
		return v
	})
	reg("MustTerminate", func(fr *frame, args []value) value {
		p := fr.i.path
		p.mustTerminate = p.concreteString(args[1], "site")
		p.sites[p.mustTerminate]++
		if p.stepBudget == 0 {
			// what has to end gets 400 000 further instructions (an ordinary
			// path needs a few ten thousand): a run that spins is recognised
			// without spending the whole general budget on it
			p.stepBudget = p.steps + 400_000
		}
		return nil
	})
	reg("FloatSame", func(fr *frame, args []value) value {
		p := fr.i.path
		return p.mkBool(p.ts.Eq(p.term(args[1]), p.term(args[2])))
	})
	reg("All", func(fr *frame, args []value) value {
		p := fr.i.path
		r := p.ts.Bool(true)
		for _, a := range varargs(args[1]) {
			r = p.ts.And(r, p.term(a))
		}
		return p.mkBool(r)
	})
	reg("Any", func(fr *frame, args []value) value {
		p := fr.i.path
		r := p.ts.Bool(false)
		for _, a := range varargs(args[1]) {
			r = p.ts.Or(r, p.term(a))
		}
		return p.mkBool(r)
	})
	reg("Assume", func(fr *frame, args []value) value {
		p := fr.i.path
		switch c := args[1].(type) {
		case bool:
			if !c {
				p.abort(abInfeasible, "assume(false)")
			}
		case symBool:
			if p.feasible(c.t) == Unsat {
				p.abort(abInfeasible, "assumption unsatisfiable on this path")
			}
			p.take(c.t)
		}
		return nil
	})
	reg("Assert", func(fr *frame, args []value) value {
		p := fr.i.path
		site := p.concreteString(args[1], "assert site")
		p.assert(site, args[2])
		return nil
	})
	reg("Region", func(fr *frame, args []value) value {
		p := fr.i.path
		name := p.concreteString(args[1], "region name")
		p.regions[name] = p.term(args[2])
		return nil
	})
	reg("Reach", func(fr *frame, args []value) value {
		p := fr.i.path
		p.reached = append(p.reached, p.concreteString(args[1], "reach site"))
		return nil
	})
	reg("Note", func(fr *frame, args []value) value {
		p := fr.i.path
		k := p.concreteString(args[1], "note key")
		if s, ok := args[2].(string); ok {
			p.notes[k] = s
		} else {
			p.notes[k] = "<symbolic text>"
			p.obs = append(p.obs, Obs{Key: "note:" + k, Vals: []interface{}{args[2]}, noteOnly: true})
		}
		return nil
	})
	reg("Observe", func(fr *frame, args []value) value {
		p := fr.i.path
		key := p.concreteString(args[1], "observe key")
		o := Obs{Key: key}
		for _, a := range varargs(args[2]) {
			it := a.(iface)
			o.Vals = append(o.Vals, it.v)
		}
		p.obs = append(p.obs, o)
		return nil
	})
	reg("MapOrderNondet", func(fr *frame, args []value) value {
		fr.i.path.mapNondet = args[1].(bool)
		return nil
	})
	reg("EnvOther", func(fr *frame, args []value) value {
		fr.i.path.envOther = fr.i.path.concreteString(args[1], "env value")
		return nil
	})
	reg("Setenv", func(fr *frame, args []value) value {
		p := fr.i.path
		if _, sym := args[1].(symString); sym {
			// a variable whose name is symbolic
			p.envSym = append(p.envSym, envEntry{name: args[1], val: p.concreteString(args[2], "env value")})
			return nil
		}
		p.env[p.concreteString(args[1], "env name")] = p.concreteString(args[2], "env value")
		return nil
	})
	reg("File", func(fr *frame, args []value) value {
		p := fr.i.path
		if p.files == nil {
			p.files = map[string]value{}
		}
		p.nfiles++
		name := fmt.Sprintf("/zzfile/%d-%s", p.nfiles, p.concreteString(args[1], "file label"))
		p.files[name] = args[2]
		return name
	})
	reg("StdoutStart", func(fr *frame, args []value) value {
		fr.i.path.stdoutMark = len(fr.i.path.stdoutV)
		return nil
	})
	reg("StdoutEnd", func(fr *frame, args []value) value {
		p := fr.i.path
		if p.stdoutApprox {
			p.unsupported("captured output contains a composite value with symbolic leaves")
		}
		var out []value
		for _, s := range p.stdoutV[p.stdoutMark:] {
			out = append(out, strBytes(s)...)
		}
		return mkStr(out)
	})
	reg("Go", func(fr *frame, args []value) value {
		fr.i.path.svGo(args[1])
		return nil
	})
	reg("Wait", func(fr *frame, args []value) value {
		p := fr.i.path
		p.svWait(fr)
		// every race found is a failed (implicit) assertion
		if len(p.races) > 0 {
			p.sites["C11.race"]++
			r, mv := p.sess.CheckWith(nil, p.inputTerms())
			if r == Sat {
				c := p.mkCand("C11.race", "", mv)
				c.PanicMsg = strings.Join(p.races, "; ")
				p.cands = append(p.cands, c)
			}
			p.notes["races"] = strings.Join(p.races, "; ")
		} else {
			p.sites["C11.race"]++
		}
		return nil
	})
	reg("Symbolic", func(fr *frame, args []value) value { return true })
	reg("Failed", func(fr *frame, args []value) value { return false })
	reg("ResetLog", func(fr *frame, args []value) value { return nil })
	reg("Ctx", func(fr *frame, args []value) value {
		// returns *SymCtx with a fresh id
		p := fr.i.path
		name := p.concreteString(args[1], "ctx name")
		maxPolls := asInt64(args[2])
		k := p.newInput(name, "int64", bvSort(64))
		p.take(p.ts.BvRel("bvsge", k, p.ts.BV(0, 64)))
		p.take(p.ts.BvRel("bvsle", k, p.ts.BV(uint64(maxPolls), 64)))
		id := len(p.ctxs)
		p.ctxs = append(p.ctxs, &ctxState{k: k})
		cell := value(structure{id, 0, p.mkInt(k, types.Int64), false})
		return &cell
	})
	externals[svName(ld, "SymCtx", "Done")] = func(fr *frame, args []value) value {
		p := fr.i.path
		st := (*args[0].(*value)).(structure)
		cs := p.ctxs[st[0].(int)]
		j := cs.polls
		cs.polls++
		st[1] = cs.polls
		if c, ok := st[3].(bool); ok && c {
			return p.closedChan()
		}
		if p.decide(p.ts.BvRel("bvsle", cs.k, p.ts.BV(uint64(j), 64))) {
			return p.closedChan()
		}
		return p.openChan()
	}
	externals[svName(ld, "SymCtx", "Cancel")] = func(fr *frame, args []value) value {
		st := (*args[0].(*value)).(structure)
		st[3] = true
		return nil
	}
	externals[svName(ld, "SymCtx", "Err")] = func(fr *frame, args []value) value {
		p := fr.i.path
		st := (*args[0].(*value)).(structure)
		cs := p.ctxs[st[0].(int)]
		if c, ok := st[3].(bool); ok && c {
			return fr.mkError("context canceled")
		}
		if p.decide(p.ts.BvRel("bvsle", cs.k, p.ts.BV(uint64(cs.polls), 64))) {
			return fr.mkError("context canceled")
		}
		return iface{}
	}
}

func (p *Path) closedChan() chan value {
	if p.cch == nil {
		p.cch = make(chan value)
		p.closed[p.cch] = true
	}
	return p.cch
}

func (p *Path) openChan() chan value {
	if p.och == nil {
		p.och = make(chan value)
	}
	return p.och
}

// assert checks cond at site; violations become candidates.
func (p *Path) assert(site string, cond value) {
	p.sites[site]++
	var c *Term
	switch x := cond.(type) {
	case bool:
		c = p.ts.Bool(x)
	case symBool:
		c = x.t
	default:
		panic(engineBug{"assert: non-boolean condition"})
	}
	if p.w.ex.opt.Canary {
		c = p.ts.Bool(false)
	}
	if c.isC && c.boolVal() {
		return
	}
	viol := p.ts.Not(c)
	var regs []*Term
	var names []string
	for _, rn := range p.w.ex.opt.KnownRegions[site] {
		if rt, ok := p.regions[rn]; ok {
			regs = append(regs, rt)
			names = append(names, rn)
		}
	}
	inputs := p.inputTerms()
	// (b) violation outside every known region
	extra := []*Term{viol}
	for _, r := range regs {
		extra = append(extra, p.ts.Not(r))
	}
	r, mv := p.sess.CheckWith(extra, inputs)
	switch r {
	case Sat:
		c := p.mkCand(site, "", mv)
		if len(p.sess.ufs) > 0 {
			// The model interprets math.Pow / calendar functions freely, so
			// it may not be a real-world witness: collect a few more models
			// (each differing in some input) for the native replay to try.
			c.UF = true
			p.cands = append(p.cands, c)
			block := append([]*Term{}, extra...)
			for k := 0; k < 7; k++ {
				diff := p.ts.Bool(false)
				for _, in := range p.inputs {
					if in.T == nil {
						continue
					}
					v, ok := mv[in.T]
					if !ok {
						continue
					}
					var eq *Term
					switch in.T.sort.k {
					case sBool:
						eq = p.ts.Eq(in.T, p.ts.Bool(v != 0))
					case sFP:
						eq = p.ts.Eq(in.T, p.ts.intern(&Term{op: "const", sort: in.T.sort, cv: v, isC: true}))
					default:
						eq = p.ts.Eq(in.T, p.ts.BV(v, in.T.sort.w))
					}
					diff = p.ts.Or(diff, p.ts.Not(eq))
				}
				if diff.isC {
					break
				}
				block = append(block, diff)
				var r2 Result
				r2, mv = p.sess.CheckWith(block, inputs)
				if r2 != Sat {
					break
				}
				c2 := p.mkCand(site, "", mv)
				c2.UF = true
				p.cands = append(p.cands, c2)
			}
		} else {
			p.cands = append(p.cands, c)
		}
	case Unknown:
		p.incon = append(p.incon, "assert "+site+": solver unknown ["+p.choiceString()+"]")
	}
	// (a) violations inside known regions
	for i, rg := range regs {
		r, mv := p.sess.CheckWith([]*Term{viol, rg}, inputs)
		if r == Sat {
			p.cands = append(p.cands, p.mkCand(site, names[i], mv))
		}
	}
	// continue under the assumption that the assertion holds
	if c.isC {
		p.abort(abDone, "assertion "+site+" failed on every input of this path")
	}
	if p.feasible(c) == Unsat {
		p.abort(abDone, "assertion "+site+" failed on every input of this path")
	}
	p.take(c)
}

func (p *Path) inputTerms() []*Term {
	var ts []*Term
	for _, in := range p.inputs {
		if in.T != nil {
			ts = append(ts, in.T)
		}
	}
	return ts
}

func litOf(kind string, bits uint64) string {
	switch kind {
	case "bool":
		if bits != 0 {
			return "true"
		}
		return "false"
	case "float64":
		return fmt.Sprintf("0x%016x", bits)
	case "int64", "int":
		return strconv.FormatInt(int64(bits), 10)
	case "int32":
		return strconv.FormatInt(int64(int32(bits)), 10)
	}
	return strconv.FormatUint(bits, 10)
}

func (p *Path) modelMap(mv map[*Term]uint64) map[string]string {
	m := map[string]string{}
	for _, in := range p.inputs {
		if in.Kind == "choice" {
			m[in.Name] = strconv.Itoa(in.N)
			continue
		}
		if v, ok := mv[in.T]; ok {
			m[in.Name] = litOf(in.Kind, v)
		}
	}
	// variables of the adversarial environment that the code asked for
	for _, r := range p.envReads {
		if name, ok := p.evalObsVal(r.name, mv).(string); ok {
			m["env:"+name] = r.val
		}
	}
	return m
}

// choiceString lists the path's choices (to identify an inconclusive path).
func (p *Path) choiceString() string {
	var ch []string
	for _, in := range p.inputs {
		if in.Kind == "choice" {
			ch = append(ch, in.Name+"="+strconv.Itoa(in.N))
		}
	}
	return strings.Join(ch, ",")
}

func (p *Path) mkCand(site, known string, mv map[*Term]uint64) Candidate {
	notes := map[string]string{}
	for k, v := range p.notes {
		notes[k] = v
	}
	var ch []string
	for _, in := range p.inputs {
		if in.Kind == "choice" {
			ch = append(ch, in.Name+"="+strconv.Itoa(in.N))
		}
	}
	return Candidate{Site: site, Harness: p.harness, Model: p.modelMap(mv), Known: known,
		Decis: append([]int64{}, p.decis...), Note: notes, Choices: strings.Join(ch, ",")}
}

// FormatObs renders one observed value the same way the native zzsv does.
func fmtObsVal(v interface{}) string {
	switch x := v.(type) {
	case nil:
		return "nil"
	case bool:
		return strconv.FormatBool(x)
	case string:
		return strconv.Quote(x)
	case float64:
		if x != x {
			return "f:NaN"
		}
		return fmt.Sprintf("f:0x%016x", math.Float64bits(x))
	case float32:
		return fmtObsVal(float64(x))
	case int, int8, int16, int32, int64:
		return strconv.FormatInt(asInt64(x), 10)
	case uint, uint8, uint16, uint32, uint64, uintptr:
		return strconv.FormatUint(uint64(asInt64(x)), 10)
	}
	return fmt.Sprintf("?%T", v)
}

// obsTerms collects the terms needed to evaluate the observations.
func (p *Path) obsTerms() []*Term {
	var ts []*Term
	for _, o := range p.obs {
		for _, v := range o.Vals {
			switch x := v.(type) {
			case symBool:
				ts = append(ts, x.t)
			case symInt:
				ts = append(ts, x.t)
			case symFloat:
				ts = append(ts, x.t)
			case symString:
				if x.tok != nil && !x.tok.done {
					ts = append(ts, x.tok.v.t)
					continue
				}
				for _, b := range strBytes(x) {
					if si, ok := b.(symInt); ok {
						ts = append(ts, si.t)
					}
				}
			}
		}
	}
	return ts
}

func (p *Path) evalObsVal(v interface{}, mv map[*Term]uint64) interface{} {
	switch x := v.(type) {
	case symBool:
		return mv[x.t] != 0
	case symInt:
		return concInt(mv[x.t], x.k)
	case symFloat:
		if x.k == types.Float32 {
			return float64(math.Float32frombits(uint32(mv[x.t])))
		}
		return math.Float64frombits(mv[x.t])
	case symString:
		if x.tok != nil && !x.tok.done {
			if kindSigned(x.tok.v.k) {
				return strconv.FormatInt(sext(mv[x.tok.v.t], x.tok.v.t.sort.w), 10)
			}
			return strconv.FormatUint(mv[x.tok.v.t], 10)
		}
		xb := strBytes(x)
		bs := make([]byte, len(xb))
		for i, b := range xb {
			switch b := b.(type) {
			case uint8:
				bs[i] = b
			case symInt:
				bs[i] = byte(mv[b.t])
			}
		}
		return string(bs)
	case iface:
		if x.t == nil {
			return nil
		}
		return p.evalObsVal(x.v, mv)
	}
	return v
}

func (p *Path) predictObs(mv map[*Term]uint64, res *PathResult) {
	for _, o := range p.obs {
		var parts []string
		for _, v := range o.Vals {
			parts = append(parts, fmtObsVal(p.evalObsVal(v, mv)))
		}
		if o.noteOnly {
			if s, ok := p.evalObsVal(o.Vals[0], mv).(string); ok {
				res.Notes[strings.TrimPrefix(o.Key, "note:")] = s
			}
			continue
		}
		res.ObsPred = append(res.ObsPred, o.Key+"="+strings.Join(parts, ","))
	}
}

// runPath executes one path of the harness.
func (w *Worker) runPath(ld *Loaded, harness string, prefix []int64) (res *PathResult, pending [][]int64) {
	p := w.newPath(prefix, harness)
	i := w.i
	i.path = p
	i.depth = 0
	res = &PathResult{End: "ok", Sites: map[string]int{}, Notes: map[string]string{}}
	defer func() {
		p.sess.end()
		i.path = nil
	}()
	i.resetRepoGlobals()
	func() {
		defer func() {
			r := recover()
			switch x := r.(type) {
			case nil:
			case abortPath:
				switch x.kind {
				case abInfeasible:
					res.End = "infeasible"
				case abUnsupported:
					res.End = "unsupported"
				case abBudget:
					res.End = "budget"
					if p.mustTerminate != "" {
						// the harness said this part has to end: running out
						// of budget is a failed assertion, not a bound
						res.End = "panic"
						x.why = "did not terminate within the instruction budget (" + p.mustTerminate + ")"
					}
				case abDone:
					res.End = "ok"
				}
				res.Why = x.why
			case engineBug:
				res.End = "bug"
				res.Why = x.msg
			case targetPanic:
				res.End = "panic"
				res.Why = "panic escaped the harness: " + toString(x.v)
			case targetRuntimeError:
				res.End = "panic"
				res.Why = "run-time panic escaped the harness: " + x.msg
			default:
				buf := make([]byte, 1<<14)
				n := runtime.Stack(buf, false)
				res.End = "bug"
				res.Why = fmt.Sprintf("engine panic: %v\n%s", r, buf[:n])
			}
		}()
		if fn := ld.Main.Func("init"); fn != nil {
			call(i, nil, token.NoPos, fn, nil)
		}
		fn := ld.Main.Func(harness)
		if fn == nil {
			panic(engineBug{"harness not found: " + harness})
		}
		tT := mustDeref(fn.Params[0].Type())
		cell := zero(tT)
		call(i, nil, token.NoPos, fn, []value{&cell})
	}()
	if res.End == "bug" {
		w.ex.bug(fmt.Sprintf("harness %s path %v: %s", harness, p.decis, res.Why))
	}
	if res.End == "panic" {
		// an escaping panic is a failed (implicit) assertion
		func() {
			defer func() { recover() }()
			r, mv := p.sess.CheckWith(nil, p.inputTerms())
			if r == Sat {
				site := "harness.panic"
				if p.mustTerminate != "" && strings.HasPrefix(res.Why, "did not terminate") {
					site = p.mustTerminate
				}
				c := p.mkCand(site, "", mv)
				c.PanicMsg = res.Why
				p.cands = append(p.cands, c)
			}
		}()
	}
	res.Decis = append([]int64{}, p.decis...)
	res.UF = len(p.sess.ufs) > 0
	res.Steps = p.steps
	res.Queries = p.sess.nqueries
	for k, v := range p.sites {
		res.Sites[k] = v
	}
	for k, v := range p.notes {
		if _, ok := res.Notes[k]; !ok {
			res.Notes[k] = v
		}
	}
	res.Cands = p.cands
	res.Incon = p.incon
	res.Reached = p.reached
	res.Forbidden = p.forbidden
	res.Funcs = p.funcs
	res.Params = p.params
	res.Races, res.RacePairs, res.RaceQ = p.races, p.racePairs, p.raceQueries
	if res.End == "unsupported" {
		// a model of the inputs that lead outside the encoding: the native twin
		// is run on a few of them to see whether the real code survives there
		func() {
			defer func() { recover() }()
			if r, mv := p.sess.CheckWith(nil, p.inputTerms()); r == Sat {
				res.Model = p.modelMap(mv)
			}
		}()
	}
	if res.End == "ok" || res.End == "panic" {
		func() {
			defer func() {
				if r := recover(); r != nil {
					res.Incon = append(res.Incon, fmt.Sprintf("model extraction failed: %v", r))
				}
			}()
			ts := append(p.inputTerms(), p.obsTerms()...)
			r, mv := p.sess.CheckWith(nil, ts)
			if r == Sat {
				res.Model = p.modelMap(mv)
				p.predictObs(mv, res)
			} else if r == Unknown {
				res.Incon = append(res.Incon, "path model: solver unknown ["+p.choiceString()+"]")
			} else {
				res.End = "infeasible"
			}
		}()
	}
	sort.Strings(res.Reached)
	return res, p.pending
}

var _ = os.Stderr
var _ ssa.Value
