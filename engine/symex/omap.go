// Insertion-ordered maps for interpreted programs. Iteration order is
// insertion order unless the path enabled map-order nondeterminism, in which
// case every range/MapKeys forks over permutations.

package symex

import (
	"fmt"
	"go/types"
)

type omap struct {
	kt    types.Type
	keys  []value
	vals  []value
	ids   []int64 // identity of each entry (for iterators that survive deletions)
	nid   int64
	idx   map[value]int // for concrete, Go-hashable keys
	plain bool          // keys are basic/pointer typed (Go-hashable when concrete)
	nsym  int           // number of stored keys that are symbolic
	perm  []int         // iteration order chosen for this map under map-order nondeterminism
}

func newOmap(kt types.Type) *omap {
	m := &omap{kt: kt}
	switch kt.Underlying().(type) {
	case *types.Basic, *types.Pointer, *types.Chan:
		m.plain = true
		m.idx = map[value]int{}
	}
	return m
}

func (m *omap) len() int {
	if m == nil {
		return 0
	}
	return len(m.keys)
}

// find returns the position of key or -1, forking on symbolic comparisons.
func (m *omap) find(p *Path, key value) int {
	if m == nil {
		return -1
	}
	if m.plain && m.nsym == 0 && !isSym(key) {
		if i, ok := m.idx[key]; ok {
			return i
		}
		return -1
	}
	for i, k := range m.keys {
		if p.equalsFork(m.kt, k, key) {
			return i
		}
	}
	return -1
}

func (m *omap) lookup(p *Path, key value) (value, bool) {
	i := m.find(p, key)
	if i < 0 {
		return nil, false
	}
	return m.vals[i], true
}

func (m *omap) insert(p *Path, key, v value) {
	if m == nil {
		panic(targetRuntimeError{"assignment to entry in nil map"})
	}
	if i := m.find(p, key); i >= 0 {
		m.vals[i] = v
		return
	}
	m.keys = append(m.keys, key)
	m.vals = append(m.vals, v)
	if m.plain {
		if isSym(key) {
			m.nsym++
		} else {
			m.idx[key] = len(m.keys) - 1
		}
	}
}

// ensureIDs gives every entry an identity.
func (m *omap) ensureIDs() {
	for len(m.ids) < len(m.keys) {
		m.nid++
		m.ids = append(m.ids, m.nid)
	}
}

func (m *omap) delete(p *Path, key value) {
	i := m.find(p, key)
	if i < 0 {
		return
	}
	m.ensureIDs()
	m.ids = append(m.ids[:i:i], m.ids[i+1:]...)
	if m.plain && isSym(m.keys[i]) {
		m.nsym--
	}
	m.keys = append(m.keys[:i:i], m.keys[i+1:]...)
	m.vals = append(m.vals[:i:i], m.vals[i+1:]...)
	if m.plain {
		m.idx = map[value]int{}
		for j, k := range m.keys {
			if !isSym(k) {
				m.idx[k] = j
			}
		}
	}
}

// order returns the iteration order of the map for this path.
func (m *omap) order(p *Path) []int {
	n := m.len()
	ord := make([]int, n)
	for i := range ord {
		ord[i] = i
	}
	if !p.mapNondet || n < 2 {
		return ord
	}
	// One arbitrary order per map object and size (Go re-randomises every
	// range statement; choosing again for every range of the same map would
	// multiply the paths by n! per loop iteration - stated bound).
	if len(m.perm) == n {
		return append([]int{}, m.perm...)
	}
	defer func() { m.perm = append([]int{}, ord...) }()
	if n <= 4 {
		// every permutation: choose successively
		rest := append([]int{}, ord...)
		out := ord[:0]
		for len(rest) > 1 {
			c := p.choice(len(rest))
			out = append(out, rest[c])
			rest = append(rest[:c:c], rest[c+1:]...)
		}
		out = append(out, rest[0])
		ord = out
		return ord
	}
	// larger maps: identity, reverse, and rotations by 1 and n/2
	switch p.choice(4) {
	case 1:
		for i := range ord {
			ord[i] = n - 1 - i
		}
	case 2:
		for i := range ord {
			ord[i] = (i + 1) % n
		}
	case 3:
		for i := range ord {
			ord[i] = (i + n/2) % n
		}
	}
	return ord
}

type omapIter struct {
	m    *omap
	ord  []int
	i    int
	snap []int64 // identities of the entries when the iteration began
}

// next produces the entries that existed when the iteration began and have
// not been deleted since, in the chosen order (as Go does; entries added
// during the iteration are not produced).
func (it *omapIter) next() tuple {
	if it.m == nil {
		return tuple{false, nil, nil}
	}
	if it.snap == nil {
		it.m.ensureIDs()
		it.snap = append([]int64{}, it.m.ids...)
		if it.ord == nil {
			it.ord = make([]int, len(it.snap))
			for k := range it.ord {
				it.ord[k] = k
			}
		}
	}
	for it.i < len(it.ord) {
		j := it.ord[it.i]
		it.i++
		if j >= len(it.snap) {
			continue
		}
		it.m.ensureIDs()
		for k, id := range it.m.ids {
			if id == it.snap[j] {
				return tuple{true, it.m.keys[k], it.m.vals[k]}
			}
		}
	}
	return tuple{false, nil, nil}
}

// equalsFork decides Go equality of x and y (type t), forking on symbolic
// leaves, and returns a concrete answer.
func (p *Path) equalsFork(t types.Type, x, y value) bool {
	if isSym(x) || isSym(y) {
		return p.truth(p.symEq(x, y))
	}
	switch x := x.(type) {
	case structure:
		y := y.(structure)
		st := t.Underlying().(*types.Struct)
		for i := 0; i < st.NumFields(); i++ {
			if f := st.Field(i); !f.Anonymous() || true {
				if f.Name() == "_" {
					continue
				}
				if !p.equalsFork(f.Type(), x[i], y[i]) {
					return false
				}
			}
		}
		return true
	case array:
		y := y.(array)
		et := t.Underlying().(*types.Array).Elem()
		for i := range x {
			if !p.equalsFork(et, x[i], y[i]) {
				return false
			}
		}
		return true
	case iface:
		y := y.(iface)
		if !sameType(x.t, y.t) {
			return false
		}
		if x.t == nil {
			return true
		}
		return p.equalsFork(x.t, x.v, y.v)
	}
	return equals(t, x, y)
}

// symEq builds the equality of two scalar/string values.
func (p *Path) symEq(x, y value) value {
	if isStr(x) && isStr(y) {
		return p.mkBool(p.strEq(x, y))
	}
	if _, ok := floatKind(x); ok {
		return p.mkBool(p.ts.FpRel("fp.eq", p.term(x), p.term(y)))
	}
	a, b := p.term(x), p.term(y)
	if a.sort != b.sort {
		panic(engineBug{fmt.Sprintf("symEq: sorts differ %T %T", x, y)})
	}
	return p.mkBool(p.ts.Eq(a, b))
}
