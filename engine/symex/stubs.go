// Environment stubs: every function listed here is part of every claim.

package symex

import (
	"fmt"
	"go/token"
	"go/types"
	"math"
	"os"
	"sort"
	"strconv"
	"strings"

	"golang.org/x/tools/go/ssa"
)

// nativeFn is a callable value implemented by the engine.
type nativeFn func(fr *frame, args []value) value

// forbiddenPkg classifies packages whose functions a confined script must
// never reach (C10). Functions with an explicit stub are looked up first.
func forbiddenPkg(path string) string {
	switch {
	case path == "os", path == "os/exec", path == "syscall", path == "io/fs", path == "io/ioutil",
		path == "plugin", path == "net", strings.HasPrefix(path, "net/"), path == "os/signal", path == "os/user",
		path == "internal/poll", path == "internal/syscall/unix", path == "internal/syscall/execenv":
		return "file/network/process primitive"
	}
	return ""
}

func init() {
	// drop upstream shortcuts that would bypass symbolic interpretation
	for _, k := range []string{"strings.Count", "strings.EqualFold", "strings.Index", "strings.IndexByte",
		"strings.Replace", "strings.ToLower", "sort.Float64s", "sort.Ints", "sort.Strings",
		"strconv.Atoi", "unicode/utf8.DecodeRuneInString", "bytes.Equal", "bytes.IndexByte",
		"fmt.Sprint", "os.Exit", "time.Sleep", "runtime.Goexit", "math.Min", "math.Abs", "math.Copysign"} {
		delete(externals, k)
	}
	for k, v := range map[string]externalFn{
		"fmt.Sprintf":  extSprintf,
		"fmt.Errorf":   extErrorf,
		"fmt.Printf":   extPrintf,
		"fmt.Print":    extPrint,
		"fmt.Println":  extPrintln,
		"fmt.Sprint":   extSprint,
		"fmt.Sprintln": extSprintln,
		"fmt.Fprintf":  extFprintf,
		"fmt.Fprintln": extFprintln,

		"(*sync.Mutex).Lock":      extMutexLock,
		"(*sync.Mutex).Unlock":    extMutexUnlock,
		// (threads run one after the other in the model, so the lock is
		// always free: TryLock succeeds and is an acquisition like Lock)
		"(*sync.Mutex).TryLock": func(fr *frame, a []value) value {
			fr.i.path.lockEvent(a[0].(*value), true)
			return true
		},
		"(*sync.RWMutex).Lock":    extNop,
		"(*sync.RWMutex).Unlock":  extNop,
		"(*sync.RWMutex).RLock":   extNop,
		"(*sync.RWMutex).RUnlock": extNop,
		"(*sync.Pool).Put":        extPoolPut,
		"(*sync.Pool).Get":        extPoolGet,
		"sync/atomic.LoadInt32":   extAtomicLoad,
		"sync/atomic.LoadInt64":   extAtomicLoad,
		"sync/atomic.LoadUint32":  extAtomicLoad,
		"sync/atomic.LoadUint64":  extAtomicLoad,
		"sync/atomic.LoadUintptr": extAtomicLoad,
		"sync/atomic.LoadPointer": extAtomicLoad,
		"sync/atomic.StoreInt32":   extAtomicStore,
		"sync/atomic.StoreInt64":   extAtomicStore,
		"sync/atomic.StoreUint32":  extAtomicStore,
		"sync/atomic.StoreUint64":  extAtomicStore,
		"sync/atomic.StoreUintptr": extAtomicStore,
		"sync/atomic.StorePointer": extAtomicStore,
		"sync/atomic.SwapInt32":   extAtomicSwap,
		"sync/atomic.SwapInt64":   extAtomicSwap,
		"sync/atomic.SwapUint32":  extAtomicSwap,
		"sync/atomic.SwapUint64":  extAtomicSwap,
		"sync/atomic.SwapPointer": extAtomicSwap,
		"sync/atomic.AddInt32":    extAtomicAdd,
		"sync/atomic.AddInt64":    extAtomicAdd,
		"sync/atomic.AddUint32":   extAtomicAdd,
		"sync/atomic.AddUint64":   extAtomicAdd,
		"sync/atomic.CompareAndSwapInt32":   extAtomicCAS,
		"sync/atomic.CompareAndSwapInt64":   extAtomicCAS,
		"sync/atomic.CompareAndSwapUint32":  extAtomicCAS,
		"sync/atomic.CompareAndSwapUint64":  extAtomicCAS,
		"sync/atomic.CompareAndSwapPointer": extAtomicCAS,
		"(*sync.Map).Load":          extSyncMapLoad,
		"(*sync.Map).Store":         extSyncMapStore,
		"(*sync.Map).LoadOrStore":   extSyncMapLoadOrStore,
		"(*sync.Map).LoadAndDelete": extSyncMapLoadAndDelete,
		"(*sync.Map).Delete":        extSyncMapDelete,
		"(*sync.Map).Range":         extSyncMapRange,
		"(*sync.Once).Do":         extOnceDo,
		"(*sync.Once).doSlow":     extOnceDo,

		"strconv.Itoa":        extItoa,
		"strconv.FormatInt":   extFormatInt,
		"strconv.FormatUint":  extFormatInt,
		"strconv.FormatFloat": extFormatFloat,
		"strconv.ParseFloat":  extParseFloat,
		"strconv.Quote":       extQuote,

		"math.Sqrt":            extSqrt,
		"math.sqrt":            extSqrt,
		"math.Pow":             extPow,
		"math.pow":             extPow,
		"math.Float64bits":     extFloat64bits,
		"math.Float64frombits": extFloat64frombits,
		"math.Float32bits":     extFloat32bits,
		"math.Float32frombits": extFloat32frombits,
		"math.IsNaN":           extIsNaN,
		"math.Floor":           extMath1(math.Floor),
		"math.Ceil":            extMath1(math.Ceil),
		"math.Trunc":           extMath1(math.Trunc),
		"math.Abs":             extMath1(math.Abs),
		"math.Log":             extMath1(math.Log),
		"math.Exp":             extMath1(math.Exp),
		"math.floor":           extMath1(math.Floor),
		"math.ceil":            extMath1(math.Ceil),
		"math.trunc":           extMath1(math.Trunc),

		"os.Getenv": extGetenv,

		"internal/bytealg.IndexByteString": extIndexByteString,
		"internal/bytealg.IndexByte":       extIndexByte,
		"internal/bytealg.CountString":     extCountString,
		"internal/bytealg.Count":           extCount,
		"internal/bytealg.Equal":           extBytesEqual,
		"internal/bytealg.Compare":         extBytesCompare,
		"internal/bytealg.MakeNoZero":      extMakeNoZero,
		"internal/bytealg.IndexString":     extUnreachable("bytealg.IndexString (MaxLen is 0)"),
		"internal/bytealg.Index":           extUnreachable("bytealg.Index (MaxLen is 0)"),
		"internal/stringslite.Index":       nil,

		"internal/reflectlite.Swapper":     extSwapper,
		"internal/reflectlite.ValueOf":     extRLValueOf,
		"(internal/reflectlite.Value).Len": extRLLen,

		"internal/abi.NoEscape": func(fr *frame, a []value) value { return a[0] },
		"internal/abi.Escape":   func(fr *frame, a []value) value { return a[0] },
		"internal/stringslite.Clone": func(fr *frame, a []value) value { return a[0] },
		"strings.Clone":              func(fr *frame, a []value) value { return a[0] },
		"runtime.KeepAlive":   extNop,
		"internal/race.Acquire": extNop,
		"internal/race.Release": extNop,
		"internal/race.ReleaseMerge": extNop,
		"internal/race.Disable": extNop,
		"internal/race.Enable":  extNop,
		"internal/race.ReadRange":  extNop,
		"internal/race.WriteRange": extNop,
		"internal/race.Read":  extNop,
		"internal/race.Write": extNop,
	} {
		if v == nil {
			delete(externals, k)
			continue
		}
		externals[k] = v
	}
}

func extNop(fr *frame, args []value) value { return nil }

func extUnreachable(what string) externalFn {
	return func(fr *frame, args []value) value {
		panic(engineBug{"reached " + what})
	}
}

// ---- sync

func extMutexLock(fr *frame, args []value) value {
	fr.i.path.lockEvent(args[0].(*value), true)
	return nil
}

func extMutexUnlock(fr *frame, args []value) value {
	fr.i.path.lockEvent(args[0].(*value), false)
	return nil
}

func extPoolPut(fr *frame, args []value) value {
	if it, ok := args[1].(iface); ok && it.t == nil {
		return nil // Put(nil) is ignored
	}
	// only pools used by the code under test are modelled as pools; the
	// standard library's own (regexp, fmt) always allocate
	if callerIsRepo(fr) {
		fr.i.path.poolPut(args[0].(*value), args[1])
	}
	return nil
}

// callerIsRepo: the external was called from code of the repository under
// test (closures count as their enclosing function).
func callerIsRepo(fr *frame) bool {
	if fr == nil || fr.caller == nil || fr.caller.fn == nil {
		return false
	}
	fn := fr.caller.fn
	for fn.Parent() != nil {
		fn = fn.Parent()
	}
	return fn.Pkg != nil && fn.Pkg.Pkg != nil && fr.i.ld.isRepo(fn.Pkg.Pkg.Path())
}

func extPoolGet(fr *frame, args []value) value {
	if v, ok := fr.i.path.poolGet(args[0].(*value)); ok {
		return v
	}
	p := (*args[0].(*value)).(structure)
	nf := p[len(p)-1]
	switch f := nf.(type) {
	case *closure:
		if f != nil {
			return call(fr.i, fr, token.NoPos, f, nil)
		}
	case *ssa.Function:
		if f != nil {
			return call(fr.i, fr, token.NoPos, f, nil)
		}
	}
	return iface{}
}

// sync/atomic on the interpreter's cells (atomic operations are
// synchronisation: they are not logged as plain accesses for the race query).
func extAtomicLoad(fr *frame, args []value) value { return *args[0].(*value) }

func extAtomicStore(fr *frame, args []value) value {
	*args[0].(*value) = args[1]
	return nil
}

func extAtomicSwap(fr *frame, args []value) value {
	c := args[0].(*value)
	old := *c
	*c = args[1]
	return old
}

func extAtomicAdd(fr *frame, args []value) value {
	c := args[0].(*value)
	sig := fr.fn.Signature
	t := sig.Results().At(0).Type()
	*c = binop(fr.i.path, token.ADD, t, *c, args[1])
	return *c
}

func extAtomicCAS(fr *frame, args []value) value {
	c := args[0].(*value)
	sig := fr.fn.Signature
	t := sig.Params().At(1).Type()
	if fr.i.path.equalsFork(t, *c, args[1]) {
		*c = args[2]
		return true
	}
	return false
}

// sync.Map: an insertion-ordered map from interface keys to interface values
// per Map object (internally synchronised: no accesses are logged for the
// race query; Range follows the map-order stub).
func syncMapOf(fr *frame, recv value) *omap {
	o := recv.(*value)
	m := fr.i.syncMaps[o]
	if m == nil {
		m = newOmap(types.NewInterfaceType(nil, nil))
		fr.i.syncMaps[o] = m
	}
	return m
}

func extSyncMapLoad(fr *frame, args []value) value {
	v, ok := syncMapOf(fr, args[0]).lookup(fr.i.path, args[1])
	if !ok {
		return tuple{iface{}, false}
	}
	return tuple{v, true}
}

func extSyncMapStore(fr *frame, args []value) value {
	syncMapOf(fr, args[0]).insert(fr.i.path, args[1], args[2])
	return nil
}

func extSyncMapLoadOrStore(fr *frame, args []value) value {
	m := syncMapOf(fr, args[0])
	if v, ok := m.lookup(fr.i.path, args[1]); ok {
		return tuple{v, true}
	}
	m.insert(fr.i.path, args[1], args[2])
	return tuple{args[2], false}
}

func extSyncMapLoadAndDelete(fr *frame, args []value) value {
	m := syncMapOf(fr, args[0])
	v, ok := m.lookup(fr.i.path, args[1])
	if !ok {
		return tuple{iface{}, false}
	}
	m.delete(fr.i.path, args[1])
	return tuple{v, true}
}

func extSyncMapDelete(fr *frame, args []value) value {
	syncMapOf(fr, args[0]).delete(fr.i.path, args[1])
	return nil
}

func extSyncMapRange(fr *frame, args []value) value {
	m := syncMapOf(fr, args[0])
	keys := append([]value{}, m.keys...)
	vals := append([]value{}, m.vals...)
	for _, k := range m.order(fr.i.path) {
		if k >= len(keys) {
			continue
		}
		if r, _ := call(fr.i, fr, token.NoPos, args[1], []value{keys[k], vals[k]}).(bool); !r {
			break
		}
	}
	return nil
}

func extOnceDo(fr *frame, args []value) value {
	o := args[0].(*value)
	if fr.i.onceDone[o] {
		return nil
	}
	fr.i.onceDone[o] = true
	return call(fr.i, fr, token.NoPos, args[1], nil)
}

// ---- math

func extSqrt(fr *frame, args []value) value {
	if sf, ok := args[0].(symFloat); ok {
		return fr.i.path.mkFloat(fr.i.path.ts.FpSqrt(sf.t), types.Float64)
	}
	return math.Sqrt(args[0].(float64))
}

func extPow(fr *frame, args []value) value {
	p := fr.i.path
	if !isSym(args[0]) && !isSym(args[1]) {
		return math.Pow(args[0].(float64), args[1].(float64))
	}
	return p.mkFloat(p.ts.App("go_math_pow", fpSort(64), p.term(args[0]), p.term(args[1])), types.Float64)
}

func extMath1(f func(float64) float64) externalFn {
	return func(fr *frame, args []value) value {
		if sf, ok := args[0].(symFloat); ok {
			bits := fr.i.path.concretize(sf.t, 16, "math function argument")
			return f(math.Float64frombits(bits))
		}
		return f(args[0].(float64))
	}
}

func extIsNaN(fr *frame, args []value) value {
	if sf, ok := args[0].(symFloat); ok {
		return fr.i.path.mkBool(fr.i.path.ts.FpIsNaN(sf.t))
	}
	return math.IsNaN(args[0].(float64))
}

func extFloat64bits(fr *frame, args []value) value {
	if sf, ok := args[0].(symFloat); ok {
		// fresh bit-vector constrained to be the encoding of the float
		p := fr.i.path
		b := p.ts.Var(fmt.Sprintf("k_f64bits_%d", sf.t.id), bvSort(64))
		p.take(p.ts.Eq(p.ts.FpFromBits(b, 64), sf.t))
		return symInt{b, types.Uint64}
	}
	return math.Float64bits(args[0].(float64))
}

func extFloat64frombits(fr *frame, args []value) value {
	if si, ok := args[0].(symInt); ok {
		return fr.i.path.mkFloat(fr.i.path.ts.FpFromBits(si.t, 64), types.Float64)
	}
	return math.Float64frombits(args[0].(uint64))
}

func extFloat32bits(fr *frame, args []value) value {
	if sf, ok := args[0].(symFloat); ok {
		p := fr.i.path
		b := p.ts.Var(fmt.Sprintf("k_f32bits_%d", sf.t.id), bvSort(32))
		p.take(p.ts.Eq(p.ts.FpFromBits(b, 32), sf.t))
		return symInt{b, types.Uint32}
	}
	return math.Float32bits(args[0].(float32))
}

func extFloat32frombits(fr *frame, args []value) value {
	if si, ok := args[0].(symInt); ok {
		return fr.i.path.mkFloat(fr.i.path.ts.FpFromBits(si.t, 32), types.Float32)
	}
	return math.Float32frombits(args[0].(uint32))
}

// ---- os

func extGetenv(fr *frame, args []value) value {
	p := fr.i.path
	name, ok := args[0].(string)
	if ok {
		if v, ok := p.env[name]; ok {
			return v
		}
	}
	if !ok || len(p.envSym) > 0 {
		// a symbolic name: compare with the variables the harness set
		keys := make([]string, 0, len(p.env))
		for k := range p.env {
			keys = append(keys, k)
		}
		sort.Strings(keys)
		if !ok {
			for _, k := range keys {
				if p.decide(p.strEq(args[0], k)) {
					return p.env[k]
				}
			}
		}
		for _, e := range p.envSym {
			if p.decide(p.strEq(args[0], e.name)) {
				return e.val
			}
		}
	}
	// a variable the harness did not list: unset, or - in an adversarial
	// environment (sv.EnvOther) - possibly holding the given value
	if p.envOther != "" {
		c := p.choice(2)
		p.inputs = append(p.inputs, Input{Name: p.inputName("env.other"), Kind: "choice", N: c})
		if c == 1 {
			p.envReads = append(p.envReads, envEntry{name: args[0], val: p.envOther})
			return p.envOther
		}
	}
	return ""
}

// ---- strconv

// itoa renders a (possibly symbolic) integer in base 10: the decimal model.
func (p *Path) itoa(v value) value {
	si, ok := v.(symInt)
	if !ok {
		k, _ := intKind(v)
		if kindSigned(k) {
			return strconv.FormatInt(asInt64(v), 10)
		}
		return strconv.FormatUint(uint64(asInt64(v)), 10)
	}
	return symString{tok: &itoaTok{p: p, v: si}}
}

// itoaBytes materialises the decimal digits of a symbolic integer: fork on
// sign and digit count, then digit variables tied to the value.
func (p *Path) itoaBytes(si symInt) []value {
	ts := p.ts
	w := si.t.sort.w
	neg := false
	m := si.t
	if kindSigned(si.k) {
		if p.decide(ts.BvRel("bvslt", si.t, ts.BV(0, w))) {
			neg = true
			m = ts.BvNeg(si.t)
		}
	}
	// widen to 64 bits unsigned for the digit arithmetic
	m = ts.ZeroExt(m, 64)
	n := 1
	pow := uint64(10)
	for n < 20 {
		if p.decide(ts.BvRel("bvult", m, ts.BV(pow, 64))) {
			break
		}
		n++
		if n == 20 {
			break
		}
		pow *= 10
	}
	p.itoaN++
	digs := make([]*Term, n)
	sum := ts.BV(0, 64)
	mul := uint64(1)
	for i := 0; i < n; i++ {
		d := ts.Var(fmt.Sprintf("k_dig%d_%d", p.itoaN, i), bvSort(64))
		digs[i] = d
		p.take(ts.BvRel("bvule", d, ts.BV(9, 64)))
		sum = ts.BvBin("bvadd", sum, ts.BvBin("bvmul", d, ts.BV(mul, 64)))
		mul *= 10
	}
	if n > 1 {
		p.take(ts.BvRel("bvuge", digs[n-1], ts.BV(1, 64)))
	}
	p.take(ts.Eq(sum, m))
	var out []value
	if neg {
		out = append(out, uint8('-'))
	}
	for i := n - 1; i >= 0; i-- {
		b := ts.BvBin("bvadd", ts.Extract(7, 0, digs[i]), ts.BV('0', 8))
		out = append(out, p.mkInt(b, types.Uint8))
	}
	return out
}

func extItoa(fr *frame, args []value) value { return fr.i.path.itoa(args[0]) }

func extFormatInt(fr *frame, args []value) value {
	p := fr.i.path
	base := p.concreteInt(args[1], 4, "FormatInt base")
	if base == 10 {
		return p.itoa(args[0])
	}
	k, _ := intKind(args[0])
	v := p.concreteInt(args[0], 16, "FormatInt value in non-decimal base")
	if kindSigned(k) {
		return strconv.FormatInt(v, int(base))
	}
	return strconv.FormatUint(uint64(v), int(base))
}

func (p *Path) ftoa(v value, fmtc byte, prec, bitSize int) string {
	var f float64
	switch v := v.(type) {
	case symFloat:
		bits := p.concretize(v.t, p.w.ex.opt.FloatEnum, "FormatFloat of a symbolic float")
		if v.k == types.Float32 {
			f = float64(math.Float32frombits(uint32(bits)))
		} else {
			f = math.Float64frombits(bits)
		}
	case float64:
		f = v
	case float32:
		f = float64(v)
	}
	return strconv.FormatFloat(f, fmtc, prec, bitSize)
}

func extFormatFloat(fr *frame, args []value) value {
	p := fr.i.path
	return p.ftoa(args[0], byte(p.concreteInt(args[1], 4, "fmt")), int(p.concreteInt(args[2], 4, "prec")), int(p.concreteInt(args[3], 4, "bitSize")))
}

func (fr *frame) mkError(msg value) value {
	fn := fr.i.prog.ImportedPackage("errors").Func("New")
	return call(fr.i, fr, token.NoPos, fn, []value{msg})
}

func extParseFloat(fr *frame, args []value) value {
	p := fr.i.path
	s := p.concreteString(args[0], "ParseFloat of a symbolic string")
	f, err := strconv.ParseFloat(s, int(asInt64(args[1])))
	if err != nil {
		return tuple{f, fr.mkError(err.Error())}
	}
	return tuple{f, iface{}}
}

func extQuote(fr *frame, args []value) value {
	p := fr.i.path
	return strconv.Quote(p.concreteString(args[0], "strconv.Quote of a symbolic string"))
}

// concreteString enumerates the values of the symbolic bytes of s (bounded).
func (p *Path) concreteString(v value, what string) string {
	if s, ok := v.(string); ok {
		return s
	}
	ss := v.(symString)
	sb := strBytes(ss)
	bs := make([]byte, len(sb))
	for i, b := range sb {
		bs[i] = byte(p.concreteInt(b, p.w.ex.opt.ByteEnum, what))
	}
	return string(bs)
}

// ---- bytealg

func (p *Path) indexByte(b []value, c value) value {
	for i, x := range b {
		if p.truth(p.symEqOrConc(x, c)) {
			return i
		}
	}
	return -1
}

func (p *Path) symEqOrConc(x, y value) value {
	if !isSym(x) && !isSym(y) {
		return asInt64(x) == asInt64(y)
	}
	return p.symEq(x, y)
}

func extIndexByteString(fr *frame, args []value) value {
	return fr.i.path.indexByte(strBytes(args[0]), args[1])
}

func extIndexByte(fr *frame, args []value) value {
	return fr.i.path.indexByte(args[0].([]value), args[1])
}

func (p *Path) countByte(b []value, c value) value {
	n := 0
	for _, x := range b {
		if p.truth(p.symEqOrConc(x, c)) {
			n++
		}
	}
	return n
}

func extCountString(fr *frame, args []value) value {
	return fr.i.path.countByte(strBytes(args[0]), args[1])
}

func extCount(fr *frame, args []value) value {
	return fr.i.path.countByte(args[0].([]value), args[1])
}

func extBytesEqual(fr *frame, args []value) value {
	p := fr.i.path
	return p.mkBool(p.strEq(mkStr(args[0].([]value)), mkStr(args[1].([]value))))
}

func extBytesCompare(fr *frame, args []value) value {
	p := fr.i.path
	a, b := mkStr(args[0].([]value)), mkStr(args[1].([]value))
	if p.decide(p.strEq(a, b)) {
		return 0
	}
	if p.decide(p.strLt(a, b, false)) {
		return -1
	}
	return 1
}

func extMakeNoZero(fr *frame, args []value) value {
	n := asInt64(args[0])
	s := make([]value, n)
	for i := range s {
		s[i] = uint8(0)
	}
	return s
}

// ---- reflectlite (sort.Slice)

func extSwapper(fr *frame, args []value) value {
	s := args[0].(iface).v.([]value)
	return nativeFn(func(fr *frame, a []value) value {
		i, j := asInt64(a[0]), asInt64(a[1])
		s[i], s[j] = s[j], s[i]
		return nil
	})
}

func extRLValueOf(fr *frame, args []value) value {
	itf := args[0].(iface)
	return structure{rtype{itf.t}, itf.v, nil}
}

func extRLLen(fr *frame, args []value) value {
	switch v := args[0].(structure)[1].(type) {
	case []value:
		return len(v)
	case array:
		return len(v)
	}
	panic(engineBug{"reflectlite.Value.Len"})
}

var _ = os.Stderr
