// Model of package time: instants are interpreted from SSA (pure
// arithmetic); the zone database and calendar decomposition are
// uninterpreted functions of (instant, zone) shared by implementation and
// oracle, evaluated natively when the instant is concrete.

package symex

import (
	"fmt"
	"go/token"
	"go/types"
	"time"
)

const unixToInternal int64 = (1969*365 + 1969/4 - 1969/100 + 1969/400) * 86400

func init() {
	for k, v := range map[string]externalFn{
		"time.Now":               extTimeNow,
		"time.LoadLocation":      extLoadLocation,
		"(time.Time).Clock":      extTimeClock,
		"(time.Time).Date":       extTimeDate,
		"(time.Time).Weekday":    extTimeWeekday,
		"(time.Weekday).String":  extWeekdayString,
		"(time.Month).String":    extMonthString,
		"(time.Time).String":     func(fr *frame, a []value) value { return "<time>" },
		"(time.Duration).String": extDurationString,
		"time.runtimeNano":       func(fr *frame, a []value) value { return int64(0) },
		"time.Sleep":             extNop,
		// (package time's initialiser is not run, so its unit table is
		// empty: durations are parsed by the real function on concrete text)
		"time.ParseDuration": func(fr *frame, a []value) value {
			txt := fr.i.path.concreteString(a[0], "time.ParseDuration of a symbolic string")
			d, err := time.ParseDuration(txt)
			if err != nil {
				return tuple{int64(0), fr.mkError(err.Error())}
			}
			return tuple{int64(d), iface{}}
		},
	} {
		externals[k] = v
	}
}

// timeParts extracts (unix seconds, zone id) from an interpreted time.Time.
func (fr *frame) timeParts(t value) (value, int) {
	st := t.(structure) // wall uint64, ext int64, loc *Location
	p := fr.i.path
	if w, ok := st[0].(uint64); !ok || w&(1<<63) != 0 {
		p.unsupported("time.Time with monotonic clock reading or symbolic wall field")
	}
	sec := binop(p, token.SUB, types.Typ[types.Int64], st[1], unixToInternal)
	zone := 0
	if lp, ok := st[2].(*value); ok && lp != nil {
		if z, ok := p.zoneOf[lp]; ok {
			zone = z
		}
	}
	return sec, zone
}

func (p *Path) zoneName(z int) string {
	if z == 0 {
		return "UTC"
	}
	return p.zones[z-1]
}

func extTimeNow(fr *frame, args []value) value {
	p := fr.i.path
	sec := p.mkInt(p.newInput("clock.now", "int64", bvSort(64)), types.Int64)
	// keep the instant in a sane range (years 1970..2200)
	p.take(p.ts.BvRel("bvsge", p.term(sec), p.ts.BV(0, 64)))
	p.take(p.ts.BvRel("bvsle", p.term(sec), p.ts.BV(7258118400, 64)))
	ext := binop(p, token.ADD, types.Typ[types.Int64], sec, unixToInternal)
	return structure{uint64(0), ext, (*value)(nil)}
}

func extLoadLocation(fr *frame, args []value) value {
	p := fr.i.path
	name := p.concreteString(args[0], "time zone name")
	if _, err := time.LoadLocation(name); err != nil {
		return tuple{(*value)(nil), fr.mkError("unknown time zone " + name)}
	}
	if name == "" || name == "UTC" {
		// real LoadLocation returns UTC: model it as zone 0 with a non-nil pointer
		if p.utcLoc == nil {
			lt := fr.i.prog.ImportedPackage("time").Type("Location").Type()
			c := zero(lt)
			p.utcLoc = &c
		}
		return tuple{p.utcLoc, iface{}}
	}
	for i, z := range p.zones {
		if z == name {
			return tuple{p.zonePtr[i], iface{}}
		}
	}
	lt := fr.i.prog.ImportedPackage("time").Type("Location").Type()
	c := zero(lt)
	ptr := &c
	p.zones = append(p.zones, name)
	p.zonePtr = append(p.zonePtr, ptr)
	if p.zoneOf == nil {
		p.zoneOf = map[*value]int{}
	}
	p.zoneOf[ptr] = len(p.zones)
	return tuple{ptr, iface{}}
}

func (fr *frame) nativeTime(sec value, zone int) (time.Time, bool) {
	if isSym(sec) {
		return time.Time{}, false
	}
	loc, err := time.LoadLocation(fr.i.path.zoneName(zone))
	if err != nil {
		loc = time.UTC
	}
	return time.Unix(asInt64(sec), 0).In(loc), true
}

func (fr *frame) timeUF(name string, sec value, zone int) value {
	p := fr.i.path
	t := p.ts.App(fmt.Sprintf("go_time_%s_z%d", name, zone), bvSort(64), p.term(sec))
	return p.mkInt(t, types.Int)
}

func extTimeClock(fr *frame, args []value) value {
	sec, zone := fr.timeParts(args[0])
	if t, ok := fr.nativeTime(sec, zone); ok {
		h, m, s := t.Clock()
		return tuple{h, m, s}
	}
	return tuple{fr.timeUF("hour", sec, zone), fr.timeUF("minute", sec, zone), fr.timeUF("second", sec, zone)}
}

func extTimeDate(fr *frame, args []value) value {
	sec, zone := fr.timeParts(args[0])
	if t, ok := fr.nativeTime(sec, zone); ok {
		y, m, d := t.Date()
		return tuple{y, int(m), d}
	}
	return tuple{fr.timeUF("year", sec, zone), fr.timeUF("month", sec, zone), fr.timeUF("day", sec, zone)}
}

func extTimeWeekday(fr *frame, args []value) value {
	sec, zone := fr.timeParts(args[0])
	if t, ok := fr.nativeTime(sec, zone); ok {
		return int(t.Weekday())
	}
	p := fr.i.path
	wd := fr.timeUF("weekday", sec, zone)
	// a weekday is 0..6
	p.take(p.ts.BvRel("bvult", p.term(wd), p.ts.BV(7, 64)))
	return wd
}

func extWeekdayString(fr *frame, args []value) value {
	d := fr.i.path.concreteInt(args[0], 8, "weekday")
	return time.Weekday(d).String()
}

func extMonthString(fr *frame, args []value) value {
	d := fr.i.path.concreteInt(args[0], 14, "month")
	return time.Month(d).String()
}

func extDurationString(fr *frame, args []value) value {
	d := fr.i.path.concreteInt(args[0], 4, "duration")
	return time.Duration(d).String()
}
