// Symbolic scalar values and the operations on them.

package symex

import (
	"fmt"
	"go/token"
	"go/types"
	"math"
)

type symBool struct{ t *Term }

type symInt struct {
	t *Term
	k types.BasicKind // Int, Int8 ... Uintptr
}

type symFloat struct {
	t *Term
	k types.BasicKind // Float32 or Float64
}

func kindWidth(k types.BasicKind) int {
	switch k {
	case types.Int8, types.Uint8:
		return 8
	case types.Int16, types.Uint16:
		return 16
	case types.Int32, types.Uint32:
		return 32
	}
	return 64
}

func kindSigned(k types.BasicKind) bool {
	switch k {
	case types.Int, types.Int8, types.Int16, types.Int32, types.Int64:
		return true
	}
	return false
}

// intKind returns the basic kind of a concrete or symbolic integer value.
func intKind(v value) (types.BasicKind, bool) {
	switch v := v.(type) {
	case symInt:
		return v.k, true
	case int:
		return types.Int, true
	case int8:
		return types.Int8, true
	case int16:
		return types.Int16, true
	case int32:
		return types.Int32, true
	case int64:
		return types.Int64, true
	case uint:
		return types.Uint, true
	case uint8:
		return types.Uint8, true
	case uint16:
		return types.Uint16, true
	case uint32:
		return types.Uint32, true
	case uint64:
		return types.Uint64, true
	case uintptr:
		return types.Uintptr, true
	}
	return 0, false
}

func isSym(v value) bool {
	switch v.(type) {
	case symBool, symInt, symFloat, symString:
		return true
	}
	return false
}

// concInt builds the concrete Go value of kind k from raw bits.
func concInt(bits uint64, k types.BasicKind) value {
	switch k {
	case types.Int:
		return int(bits)
	case types.Int8:
		return int8(bits)
	case types.Int16:
		return int16(bits)
	case types.Int32:
		return int32(bits)
	case types.Int64:
		return int64(bits)
	case types.Uint:
		return uint(bits)
	case types.Uint8:
		return uint8(bits)
	case types.Uint16:
		return uint16(bits)
	case types.Uint32:
		return uint32(bits)
	case types.Uint64:
		return uint64(bits)
	case types.Uintptr:
		return uintptr(bits)
	}
	panic(engineBug{fmt.Sprintf("concInt: kind %v", k)})
}

func (p *Path) mkInt(t *Term, k types.BasicKind) value {
	if t.sort.k != sBV || t.sort.w != kindWidth(k) {
		panic(engineBug{fmt.Sprintf("mkInt: sort %v for kind %v", t.sort, k)})
	}
	if t.isC {
		return concInt(t.cv, k)
	}
	return symInt{t, k}
}

func (p *Path) mkBool(t *Term) value {
	if t.isC {
		return t.boolVal()
	}
	return symBool{t}
}

func (p *Path) mkFloat(t *Term, k types.BasicKind) value {
	if t.isC {
		if k == types.Float32 {
			return math.Float32frombits(uint32(t.cv))
		}
		return math.Float64frombits(t.cv)
	}
	return symFloat{t, k}
}

// term converts any scalar (concrete or symbolic) to a term.
func (p *Path) term(v value) *Term {
	switch v := v.(type) {
	case symBool:
		return v.t
	case symInt:
		return v.t
	case symFloat:
		return v.t
	case bool:
		return p.ts.Bool(v)
	case float64:
		return p.ts.F64(v)
	case float32:
		return p.ts.F32(v)
	}
	if k, ok := intKind(v); ok {
		return p.ts.BV(uint64(asInt64(v)), kindWidth(k))
	}
	panic(engineBug{fmt.Sprintf("term: unsupported %T", v)})
}

// symBinop implements binop when at least one operand is symbolic.
func (p *Path) symBinop(op token.Token, x, y value) value {
	ts := p.ts
	// strings
	_, xs := x.(symString)
	_, ys := y.(symString)
	if xs || ys {
		return p.strBinop(op, x, y)
	}
	// booleans
	if _, ok := x.(symBool); ok || isBoolish(y) && isBoolish(x) {
		a, b := p.term(x), p.term(y)
		switch op {
		case token.EQL:
			return p.mkBool(ts.Eq(a, b))
		case token.NEQ:
			return p.mkBool(ts.Not(ts.Eq(a, b)))
		}
		panic(engineBug{"symBinop bool op " + op.String()})
	}
	// floats
	if fk, ok := floatKind(x); ok {
		a, b := p.term(x), p.term(y)
		switch op {
		case token.ADD:
			return p.mkFloat(ts.FpBin("fp.add", a, b), fk)
		case token.SUB:
			return p.mkFloat(ts.FpBin("fp.sub", a, b), fk)
		case token.MUL:
			return p.mkFloat(ts.FpBin("fp.mul", a, b), fk)
		case token.QUO:
			return p.mkFloat(ts.FpBin("fp.div", a, b), fk)
		case token.EQL:
			return p.mkBool(ts.FpRel("fp.eq", a, b))
		case token.NEQ:
			return p.mkBool(ts.Not(ts.FpRel("fp.eq", a, b)))
		case token.LSS:
			return p.mkBool(ts.FpRel("fp.lt", a, b))
		case token.LEQ:
			return p.mkBool(ts.FpRel("fp.leq", a, b))
		case token.GTR:
			return p.mkBool(ts.FpRel("fp.gt", a, b))
		case token.GEQ:
			return p.mkBool(ts.FpRel("fp.geq", a, b))
		}
		panic(engineBug{"symBinop float op " + op.String()})
	}
	k, ok := intKind(x)
	if !ok {
		panic(engineBug{fmt.Sprintf("symBinop: %T %s %T", x, op, y)})
	}
	w := kindWidth(k)
	sg := kindSigned(k)
	a := p.term(x)
	// shifts: y may have a different integer kind
	if op == token.SHL || op == token.SHR {
		ky, _ := intKind(y)
		b := p.term(y)
		if kindSigned(ky) {
			// negative shift count panics in Go
			neg := ts.BvRel("bvslt", b, ts.BV(0, b.sort.w))
			if p.decide(neg) {
				panic(targetRuntimeError{"negative shift amount"})
			}
		}
		// bring b to width w, saturating
		var bw *Term
		if b.sort.w > w {
			big := ts.BvRel("bvuge", b, ts.BV(uint64(w), b.sort.w))
			bw = ts.Ite(big, ts.BV(uint64(w), w), ts.Extract(w-1, 0, b))
		} else {
			bw = ts.ZeroExt(b, w)
		}
		switch {
		case op == token.SHL:
			return p.mkInt(ts.BvBin("bvshl", a, bw), k)
		case sg:
			return p.mkInt(ts.BvBin("bvashr", a, bw), k)
		default:
			return p.mkInt(ts.BvBin("bvlshr", a, bw), k)
		}
	}
	b := p.term(y)
	if b.sort != a.sort {
		panic(engineBug{fmt.Sprintf("symBinop: int sorts differ %T %s %T", x, op, y)})
	}
	rel := func(s, u string) value {
		if sg {
			return p.mkBool(ts.BvRel(s, a, b))
		}
		return p.mkBool(ts.BvRel(u, a, b))
	}
	switch op {
	case token.ADD:
		return p.mkInt(ts.BvBin("bvadd", a, b), k)
	case token.SUB:
		return p.mkInt(ts.BvBin("bvsub", a, b), k)
	case token.MUL:
		return p.mkInt(ts.BvBin("bvmul", a, b), k)
	case token.AND:
		return p.mkInt(ts.BvBin("bvand", a, b), k)
	case token.OR:
		return p.mkInt(ts.BvBin("bvor", a, b), k)
	case token.XOR:
		return p.mkInt(ts.BvBin("bvxor", a, b), k)
	case token.AND_NOT:
		return p.mkInt(ts.BvBin("bvand", a, ts.BvNot(b)), k)
	case token.QUO, token.REM:
		if p.decide(ts.Eq(b, ts.BV(0, w))) {
			panic(targetRuntimeError{"integer divide by zero"})
		}
		var o string
		switch {
		case op == token.QUO && sg:
			o = "bvsdiv"
		case op == token.QUO:
			o = "bvudiv"
		case sg:
			o = "bvsrem"
		default:
			o = "bvurem"
		}
		return p.mkInt(ts.BvBin(o, a, b), k)
	case token.EQL:
		return p.mkBool(ts.Eq(a, b))
	case token.NEQ:
		return p.mkBool(ts.Not(ts.Eq(a, b)))
	case token.LSS:
		return rel("bvslt", "bvult")
	case token.LEQ:
		return rel("bvsle", "bvule")
	case token.GTR:
		return rel("bvsgt", "bvugt")
	case token.GEQ:
		return rel("bvsge", "bvuge")
	}
	panic(engineBug{"symBinop int op " + op.String()})
}

func isBoolish(v value) bool {
	switch v.(type) {
	case bool, symBool:
		return true
	}
	return false
}

func floatKind(v value) (types.BasicKind, bool) {
	switch v := v.(type) {
	case symFloat:
		return v.k, true
	case float64:
		return types.Float64, true
	case float32:
		return types.Float32, true
	}
	return 0, false
}

func (p *Path) symUnop(op token.Token, x value) value {
	switch x := x.(type) {
	case symBool:
		if op == token.NOT {
			return p.mkBool(p.ts.Not(x.t))
		}
	case symInt:
		switch op {
		case token.SUB:
			return p.mkInt(p.ts.BvNeg(x.t), x.k)
		case token.XOR:
			return p.mkInt(p.ts.BvNot(x.t), x.k)
		}
	case symFloat:
		if op == token.SUB {
			return p.mkFloat(p.ts.FpNeg(x.t), x.k)
		}
	}
	panic(engineBug{fmt.Sprintf("symUnop %s %T", op, x)})
}

// symConvNumeric converts a symbolic numeric x to basic kind dst.
func (p *Path) symConvNumeric(x value, dst types.BasicKind) value {
	ts := p.ts
	switch x := x.(type) {
	case symInt:
		switch dst {
		case types.Float32, types.Float64:
			fw := 64
			if dst == types.Float32 {
				fw = 32
			}
			return p.mkFloat(ts.IntToFp(x.t, kindSigned(x.k), fw), dst)
		}
		w := kindWidth(dst)
		if kindSigned(x.k) {
			return p.mkInt(ts.SignExt(x.t, w), dst)
		}
		return p.mkInt(ts.ZeroExt(x.t, w), dst)
	case symFloat:
		switch dst {
		case types.Float32:
			return p.mkFloat(ts.FpToFp(x.t, 32), dst)
		case types.Float64:
			return p.mkFloat(ts.FpToFp(x.t, 64), dst)
		}
		// int -> float -> int round trips (e.g. `v == int64(float64(v))`):
		// when the path condition confines the integer to +-2^53 the round
		// trip is the identity, and no floating-point term is needed. One
		// bit-vector query decides that.
		if x.t.op == "to_fp" && len(x.t.args) == 1 && x.t.args[0].sort.k == sBV && x.t.args[0].sort.w == 64 && kindWidth(dst) == 64 && kindSigned(dst) {
			iv := x.t.args[0]
			lim := uint64(1) << 53
			rng := ts.And(ts.BvRel("bvsge", iv, ts.BV(-lim, 64)), ts.BvRel("bvsle", iv, ts.BV(lim, 64)))
			if p.feasible(ts.Not(rng)) == Unsat {
				return p.mkInt(iv, dst)
			}
		}
		// float -> int. Go on amd64: out-of-range and NaN give the
		// "integer indefinite" value 0x8000... for 64/32 bit signed
		// destinations; smaller widths truncate the 32/64-bit result.
		w := kindWidth(dst)
		src := ts.FpToFp(x.t, 64)
		if !kindSigned(dst) && w == 64 {
			// uint64(f): two ranges on amd64; keep it simple and exact for
			// [0, 2^63), otherwise unsupported.
			inr := ts.And(ts.FpRel("fp.geq", src, ts.F64(0)), ts.FpRel("fp.lt", src, ts.F64(9223372036854775808.0)))
			if !p.decide(inr) {
				p.unsupported("float to uint64 out of [0,2^63)")
			}
			return p.mkInt(ts.FpToBV(src, true, 64), dst)
		}
		// signed 64-bit conversion (CVTTSD2SQ) then truncate
		lo, hi := -9223372036854775808.0, 9223372036854775808.0
		inr := ts.And(ts.FpRel("fp.geq", src, ts.F64(lo)), ts.FpRel("fp.lt", src, ts.F64(hi)))
		r64 := ts.Ite(inr, ts.FpToBV(src, true, 64), ts.BV(1<<63, 64))
		if w == 64 {
			return p.mkInt(r64, dst)
		}
		if w == 32 && kindSigned(dst) {
			// CVTTSD2SL
			lo32, hi32 := -2147483648.0, 2147483648.0
			in32 := ts.And(ts.FpRel("fp.gt", src, ts.F64(lo32-1)), ts.FpRel("fp.lt", src, ts.F64(hi32)))
			return p.mkInt(ts.Ite(in32, ts.FpToBV(src, true, 32), ts.BV(1<<31, 32)), dst)
		}
		return p.mkInt(ts.Extract(w-1, 0, r64), dst)
	}
	panic(engineBug{fmt.Sprintf("symConvNumeric %T -> %v", x, dst)})
}

// symIndexConcrete forks a symbolic index into a concrete in-range index or
// raises the Go index-out-of-range panic.
func (p *Path) forkIndex(idx value, n int, what string) int {
	si, ok := idx.(symInt)
	if !ok {
		i := asInt64(idx)
		if k, _ := intKind(idx); !kindSigned(k) && uint64(i) > uint64(math.MaxInt64) {
			panic(targetRuntimeError{fmt.Sprintf("index out of range [%d] with length %d", uint64(i), n)})
		}
		if i < 0 || i >= int64(n) {
			panic(targetRuntimeError{fmt.Sprintf("index out of range [%d] with length %d", i, n)})
		}
		return int(i)
	}
	w := si.t.sort.w
	if !p.decide(p.inRange(si, n)) {
		panic(targetRuntimeError{fmt.Sprintf("index out of range [sym] with length %d", n)})
	}
	for i := 0; i < n-1; i++ {
		if p.decide(p.ts.Eq(si.t, p.ts.BV(uint64(i), w))) {
			return i
		}
	}
	p.take(p.ts.Eq(si.t, p.ts.BV(uint64(n-1), w)))
	return n - 1
}

// inRange builds 0 <= idx < n for an index of any integer kind.
func (p *Path) inRange(si symInt, n int) *Term {
	w := si.t.sort.w
	if kindSigned(si.k) {
		if w < 64 && uint64(n) > mask(w-1) {
			return p.ts.BvRel("bvsge", si.t, p.ts.BV(0, w))
		}
		return p.ts.BvRel("bvult", si.t, p.ts.BV(uint64(n), w))
	}
	if w < 64 && uint64(n) > mask(w) {
		return p.ts.Bool(true)
	}
	return p.ts.BvRel("bvult", si.t, p.ts.BV(uint64(n), w))
}

// selectFrom reads elems[idx] for a symbolic in-range idx as an ite chain
// when all elements are scalars of one kind; otherwise forks.
func (p *Path) selectFrom(elems []value, idx value, what string) value {
	si, ok := idx.(symInt)
	if !ok {
		return elems[p.forkIndex(idx, len(elems), what)]
	}
	n := len(elems)
	w := si.t.sort.w
	if !p.decide(p.inRange(si, n)) {
		panic(targetRuntimeError{fmt.Sprintf("index out of range [sym] with length %d", n)})
	}
	// all scalar of the same int kind?
	k0, ok0 := intKind(elems[0])
	if ok0 {
		same := true
		for _, e := range elems {
			if k, ok := intKind(e); !ok || k != k0 {
				same = false
				break
			}
		}
		if same {
			// group by identical term; default = most frequent
			terms := make([]*Term, n)
			cnt := map[*Term]int{}
			for i, e := range elems {
				terms[i] = p.term(e)
				cnt[terms[i]]++
			}
			var def *Term
			for _, t := range terms {
				if def == nil || cnt[t] > cnt[def] {
					def = t
				}
			}
			res := def
			groups := map[*Term]*Term{}
			var order []*Term
			for i, t := range terms {
				if t == def {
					continue
				}
				c := p.ts.Eq(si.t, p.ts.BV(uint64(i), w))
				if g, ok := groups[t]; ok {
					groups[t] = p.ts.Or(g, c)
				} else {
					groups[t] = c
					order = append(order, t)
				}
			}
			for _, t := range order {
				res = p.ts.Ite(groups[t], t, res)
			}
			return p.mkInt(res, k0)
		}
	}
	return elems[p.forkIndex(idx, n, what)]
}

// truth forces a (possibly symbolic) boolean to a concrete one by forking.
func (p *Path) truth(v value) bool {
	switch v := v.(type) {
	case bool:
		return v
	case symBool:
		return p.decide(v.t)
	}
	panic(engineBug{fmt.Sprintf("truth of %T", v)})
}

// concreteInt forces an integer to be concrete by enumerating its values.
func (p *Path) concreteInt(v value, max int, what string) int64 {
	si, ok := v.(symInt)
	if !ok {
		return asInt64(v)
	}
	bits := p.concretize(si.t, max, what)
	if kindSigned(si.k) {
		return sext(bits, si.t.sort.w)
	}
	return int64(bits)
}
