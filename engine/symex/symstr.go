// Symbolic strings: concrete length, bytes concrete (uint8) or symbolic.

package symex

import (
	"fmt"
	"go/token"
	"go/types"
	"os"
	"runtime"
)

type symString struct {
	b   []value
	tok *itoaTok // not nil: the decimal rendering of an integer, bytes made on demand
}

// itoaTok is the lazily materialised decimal rendering of a symbolic
// integer. Comparing two such strings only needs the integers themselves.
type itoaTok struct {
	p     *Path
	v     symInt
	bytes []value
	done  bool
}

func (t *itoaTok) materialize() []value {
	if !t.done {
		if os.Getenv("VCHECK_DEBUG_ITOA") != "" {
			buf := make([]byte, 1<<13)
			n := runtime.Stack(buf, false)
			fmt.Fprintf(os.Stderr, "ITOA materialize:\n%s\n", buf[:n])
		}
		t.bytes = t.p.itoaBytes(t.v)
		t.done = true
	}
	return t.bytes
}

// canonicalDecimal parses s as the canonical decimal spelling of an int64.
func canonicalDecimal(s string) (int64, bool) {
	if s == "" {
		return 0, false
	}
	neg := false
	d := s
	if s[0] == '-' {
		neg = true
		d = s[1:]
	}
	if d == "" || len(d) > 19 || (len(d) > 1 && d[0] == '0') || (neg && d == "0") {
		return 0, false
	}
	var u uint64
	for i := 0; i < len(d); i++ {
		if d[i] < '0' || d[i] > '9' {
			return 0, false
		}
		u = u*10 + uint64(d[i]-'0')
	}
	if neg {
		if u > 1<<63 {
			return 0, false
		}
		return -int64(u), true
	}
	if u > 1<<63-1 {
		return 0, false
	}
	return int64(u), true
}


func strBytes(v value) []value {
	switch v := v.(type) {
	case string:
		r := make([]value, len(v))
		for i := 0; i < len(v); i++ {
			r[i] = v[i]
		}
		return r
	case symString:
		if v.tok != nil {
			return v.tok.materialize()
		}
		return v.b
	}
	panic(engineBug{fmt.Sprintf("strBytes of %T", v)})
}

func strLen(v value) int {
	switch v := v.(type) {
	case string:
		return len(v)
	case symString:
		return len(strBytes(v))
	}
	panic(engineBug{fmt.Sprintf("strLen of %T", v)})
}

// mkStr normalises a byte vector to a Go string when fully concrete.
func mkStr(b []value) value {
	for _, x := range b {
		if _, ok := x.(uint8); !ok {
			cp := make([]value, len(b))
			copy(cp, b)
			return symString{b: cp}
		}
	}
	bs := make([]byte, len(b))
	for i, x := range b {
		bs[i] = x.(uint8)
	}
	return string(bs)
}

func isStr(v value) bool {
	switch v.(type) {
	case string, symString:
		return true
	}
	return false
}

func (p *Path) strEq(x, y value) *Term {
	// decimal renderings compare like the integers they render
	xs, xok := x.(symString)
	ys, yok := y.(symString)
	if xok && xs.tok != nil && !xs.tok.done {
		if yok && ys.tok != nil && xs.tok.v.k == ys.tok.v.k {
			return p.ts.Eq(xs.tok.v.t, ys.tok.v.t)
		}
		if cs, ok := y.(string); ok && kindSigned(xs.tok.v.k) && kindWidth(xs.tok.v.k) == 64 {
			if n, ok := canonicalDecimal(cs); ok {
				return p.ts.Eq(xs.tok.v.t, p.ts.BV(uint64(n), 64))
			}
			return p.ts.Bool(false)
		}
	} else if yok && ys.tok != nil && !ys.tok.done {
		if _, ok := x.(string); ok {
			return p.strEq(y, x)
		}
	}
	a, b := strBytes(x), strBytes(y)
	if len(a) != len(b) {
		return p.ts.Bool(false)
	}
	r := p.ts.Bool(true)
	for i := range a {
		r = p.ts.And(r, p.ts.Eq(p.term(a[i]), p.term(b[i])))
		if r.isC && !r.boolVal() {
			return r
		}
	}
	return r
}

// strLt builds x < y (strict) or x <= y.
func (p *Path) strLt(x, y value, orEq bool) *Term {
	a, b := strBytes(x), strBytes(y)
	n := len(a)
	if len(b) < n {
		n = len(b)
	}
	var tail *Term
	if orEq {
		tail = p.ts.Bool(len(a) <= len(b))
	} else {
		tail = p.ts.Bool(len(a) < len(b))
	}
	for i := n - 1; i >= 0; i-- {
		ai, bi := p.term(a[i]), p.term(b[i])
		tail = p.ts.Or(p.ts.BvRel("bvult", ai, bi), p.ts.And(p.ts.Eq(ai, bi), tail))
	}
	return tail
}

func (p *Path) strBinop(op token.Token, x, y value) value {
	switch op {
	case token.ADD:
		return mkStr(append(append([]value{}, strBytes(x)...), strBytes(y)...))
	case token.EQL:
		return p.mkBool(p.strEq(x, y))
	case token.NEQ:
		return p.mkBool(p.ts.Not(p.strEq(x, y)))
	case token.LSS:
		return p.mkBool(p.strLt(x, y, false))
	case token.LEQ:
		return p.mkBool(p.strLt(x, y, true))
	case token.GTR:
		return p.mkBool(p.strLt(y, x, false))
	case token.GEQ:
		return p.mkBool(p.strLt(y, x, true))
	}
	panic(engineBug{"strBinop " + op.String()})
}

// utf8 helpers run the program's own unicode/utf8 code on symbolic bytes.

func (fr *frame) utf8Func(name string) value {
	pkg := fr.i.prog.ImportedPackage("unicode/utf8")
	if pkg == nil {
		panic(engineBug{"unicode/utf8 not in program"})
	}
	fn := pkg.Func(name)
	if fn == nil {
		panic(engineBug{"utf8." + name + " missing"})
	}
	return fn
}

// decodeRunes converts a (symbolic) string to its runes.
func (fr *frame) decodeRunes(s value) []value {
	if cs, ok := s.(string); ok {
		var res []value
		for _, r := range cs {
			res = append(res, r)
		}
		return res
	}
	b := strBytes(s)
	var res []value
	fn := fr.utf8Func("DecodeRuneInString")
	for i := 0; i < len(b); {
		if c, ok := b[i].(uint8); ok && c < 0x80 {
			res = append(res, int32(c))
			i++
			continue
		}
		t := call(fr.i, fr, token.NoPos, fn, []value{mkStr(b[i:])}).(tuple)
		res = append(res, t[0])
		i += int(asInt64(t[1]))
	}
	return res
}

// encodeRunes converts runes (possibly symbolic) to a string value.
func (fr *frame) encodeRunes(rs []value) value {
	var out []value
	fn := fr.utf8Func("AppendRune")
	for _, r := range rs {
		if c, ok := r.(int32); ok {
			for _, b := range []byte(string(rune(c))) {
				out = append(out, b)
			}
			continue
		}
		res := call(fr.i, fr, token.NoPos, fn, []value{[]value(nil), r}).([]value)
		out = append(out, res...)
	}
	return mkStr(out)
}

// symStringIter iterates a symbolic string by runes.
type symStringIter struct {
	fr *frame
	b  []value
	i  int
}

func (it *symStringIter) next() tuple {
	okv := make(tuple, 3)
	if it.i >= len(it.b) {
		okv[0] = false
		return okv
	}
	okv[0] = true
	okv[1] = it.i
	if c, ok := it.b[it.i].(uint8); ok && c < 0x80 {
		okv[2] = int32(c)
		it.i++
		return okv
	}
	fn := it.fr.utf8Func("DecodeRuneInString")
	t := call(it.fr.i, it.fr, token.NoPos, fn, []value{mkStr(it.b[it.i:])}).(tuple)
	okv[2] = t[0]
	it.i += int(asInt64(t[1]))
	return okv
}

// isByteSlice reports whether t is []byte-like.
func isByteElem(t types.Type) bool {
	b, ok := t.Underlying().(*types.Basic)
	return ok && b.Kind() == types.Uint8
}
