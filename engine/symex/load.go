// Loading the code under test (plus harness overlay) into SSA.

package symex

import (
	"fmt"
	"os"
	"path/filepath"
	"strings"

	"golang.org/x/tools/go/packages"
	"golang.org/x/tools/go/ssa"
	"golang.org/x/tools/go/ssa/ssautil"
)

// LoadConfig says where the repository and the harness overlay are.
type LoadConfig struct {
	RepoDir    string // e.g. /repo
	HarnessDir string // e.g. /verif/harness: files are overlaid at the same relative path
	Module     string // module path of the repository
	Pkg        string // package (relative to the module, "" = root) that contains the harness
	Tags       string
}

// Overlay maps every file below HarnessDir into RepoDir.
func (c *LoadConfig) Overlay() (map[string][]byte, error) {
	ov := map[string][]byte{}
	err := filepath.Walk(c.HarnessDir, func(path string, info os.FileInfo, err error) error {
		if err != nil {
			return err
		}
		if info.IsDir() || !strings.HasSuffix(path, ".go") {
			return nil
		}
		rel, _ := filepath.Rel(c.HarnessDir, path)
		b, err := os.ReadFile(path)
		if err != nil {
			return err
		}
		ov[filepath.Join(c.RepoDir, rel)] = b
		return nil
	})
	return ov, err
}

// Load type-checks and builds SSA for the harness package and all its
// dependencies, from the repository's current working tree.
func Load(c LoadConfig) (*Loaded, error) {
	ov, err := c.Overlay()
	if err != nil {
		return nil, err
	}
	cfg := &packages.Config{
		Mode:       packages.LoadAllSyntax,
		Dir:        c.RepoDir,
		Overlay:    ov,
		BuildFlags: []string{"-tags=" + c.Tags, "-mod=mod"},
		Env:        append(os.Environ(), "GOFLAGS=-mod=mod", "GOPROXY=off", "GOSUMDB=off", "GOTOOLCHAIN=local", "CGO_ENABLED=0"),
	}
	pat := c.Module
	if c.Pkg != "" {
		pat += "/" + c.Pkg
	}
	pkgs, err := packages.Load(cfg, pat)
	if err != nil {
		return nil, err
	}
	var errs []string
	packages.Visit(pkgs, nil, func(p *packages.Package) {
		for _, e := range p.Errors {
			errs = append(errs, e.Error())
		}
	})
	if len(errs) > 0 {
		return nil, fmt.Errorf("load errors:\n%s", strings.Join(errs, "\n"))
	}
	prog, ssapkgs := ssautil.AllPackages(pkgs, ssa.InstantiateGenerics)
	prog.Build()
	if len(ssapkgs) == 0 || ssapkgs[0] == nil {
		return nil, fmt.Errorf("no SSA package for %s", pat)
	}
	ld := PrepareLoaded(prog, ssapkgs[0], c.Module)
	RegisterSV(ld)
	return ld, nil
}
