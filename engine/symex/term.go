// Term layer: per-path hash-consed SMT terms with local simplification.
//
// Terms are created while a path executes and are emitted to the solver
// lazily as zero-ary define-funs, so that shared sub-terms are sent once.

package symex

import (
	"fmt"
	"math"
	"math/bits"
	"strings"
)

type sortKind uint8

const (
	sBool sortKind = iota
	sBV
	sFP
)

// Sort of a term. For sBV w is the width; for sFP w is 32 or 64.
type Sort struct {
	k sortKind
	w int
}

var boolSort = Sort{sBool, 0}

func bvSort(w int) Sort { return Sort{sBV, w} }
func fpSort(w int) Sort { return Sort{sFP, w} }

func (s Sort) String() string {
	switch s.k {
	case sBool:
		return "Bool"
	case sBV:
		return fmt.Sprintf("(_ BitVec %d)", s.w)
	default:
		if s.w == 32 {
			return "(_ FloatingPoint 8 24)"
		}
		return "(_ FloatingPoint 11 53)"
	}
}

// Term is a node of the term DAG.
type Term struct {
	id    int
	op    string // SMT-LIB operator, or "var", "const"
	args  []*Term
	sort  Sort
	name  string // for var
	cv    uint64 // for const: bv value (masked), bool (0/1) or float bits
	isC   bool
	hasFP bool
	ix    [2]int // indices for extract / extend
}

func (t *Term) IsConst() bool { return t.isC }

// TermStore hash-conses the terms of one path.
type TermStore struct {
	tab   map[string]*Term
	next  int
	vars  []*Term
	varIx map[string]*Term
}

func newTermStore() *TermStore {
	return &TermStore{tab: map[string]*Term{}, varIx: map[string]*Term{}}
}

func mask(w int) uint64 {
	if w >= 64 {
		return ^uint64(0)
	}
	return (uint64(1) << uint(w)) - 1
}

func sext(v uint64, w int) int64 {
	if w >= 64 {
		return int64(v)
	}
	sh := uint(64 - w)
	return int64(v<<sh) >> sh
}

func (ts *TermStore) intern(t *Term) *Term {
	var sb strings.Builder
	sb.WriteString(t.op)
	if t.op == "var" {
		sb.WriteString(":" + t.name)
	}
	if t.isC {
		fmt.Fprintf(&sb, ":%d:%d:%d", t.sort.k, t.sort.w, t.cv)
	}
	if t.ix != [2]int{} {
		fmt.Fprintf(&sb, "[%d,%d]", t.ix[0], t.ix[1])
	}
	if t.op == "to_fp" || t.op == "to_fp_unsigned" || t.op == "fp.to_sbv" || t.op == "fp.to_ubv" {
		fmt.Fprintf(&sb, "<%d>", t.sort.w)
	}
	for _, a := range t.args {
		fmt.Fprintf(&sb, " %d", a.id)
		if a.hasFP {
			t.hasFP = true
		}
	}
	if t.sort.k == sFP {
		t.hasFP = true
	}
	k := sb.String()
	if o, ok := ts.tab[k]; ok {
		return o
	}
	t.id = ts.next
	ts.next++
	ts.tab[k] = t
	return t
}

// Var declares (or returns) an input variable.
func (ts *TermStore) Var(name string, s Sort) *Term {
	if v, ok := ts.varIx[name]; ok {
		return v
	}
	v := ts.intern(&Term{op: "var", name: name, sort: s})
	ts.varIx[name] = v
	ts.vars = append(ts.vars, v)
	return v
}

func (ts *TermStore) BV(v uint64, w int) *Term {
	return ts.intern(&Term{op: "const", sort: bvSort(w), cv: v & mask(w), isC: true})
}

func (ts *TermStore) Bool(b bool) *Term {
	var v uint64
	if b {
		v = 1
	}
	return ts.intern(&Term{op: "const", sort: boolSort, cv: v, isC: true})
}

func (ts *TermStore) F64(f float64) *Term {
	return ts.intern(&Term{op: "const", sort: fpSort(64), cv: math.Float64bits(f), isC: true})
}

func (ts *TermStore) F32(f float32) *Term {
	return ts.intern(&Term{op: "const", sort: fpSort(32), cv: uint64(math.Float32bits(f)), isC: true})
}

func (t *Term) boolVal() bool { return t.cv != 0 }

func (t *Term) f64() float64 {
	if t.sort.w == 32 {
		return float64(math.Float32frombits(uint32(t.cv)))
	}
	return math.Float64frombits(t.cv)
}

// ---- boolean connectives

func (ts *TermStore) Not(a *Term) *Term {
	if a.isC {
		return ts.Bool(!a.boolVal())
	}
	if a.op == "not" {
		return a.args[0]
	}
	return ts.intern(&Term{op: "not", args: []*Term{a}, sort: boolSort})
}

func (ts *TermStore) And(a, b *Term) *Term {
	if a.isC {
		if a.boolVal() {
			return b
		}
		return a
	}
	if b.isC {
		if b.boolVal() {
			return a
		}
		return b
	}
	if a == b {
		return a
	}
	return ts.intern(&Term{op: "and", args: []*Term{a, b}, sort: boolSort})
}

func (ts *TermStore) Or(a, b *Term) *Term {
	if a.isC {
		if a.boolVal() {
			return a
		}
		return b
	}
	if b.isC {
		if b.boolVal() {
			return b
		}
		return a
	}
	if a == b {
		return a
	}
	return ts.intern(&Term{op: "or", args: []*Term{a, b}, sort: boolSort})
}

func (ts *TermStore) Ite(c, a, b *Term) *Term {
	if c.isC {
		if c.boolVal() {
			return a
		}
		return b
	}
	if a == b {
		return a
	}
	if a.sort.k == sBool && a.isC && b.isC {
		if a.boolVal() && !b.boolVal() {
			return c
		}
		if !a.boolVal() && b.boolVal() {
			return ts.Not(c)
		}
	}
	return ts.intern(&Term{op: "ite", args: []*Term{c, a, b}, sort: a.sort})
}

// Eq is structural equality ("=" in SMT-LIB). For FP sorts callers that
// want Go's == must use FpRel("fp.eq").
func (ts *TermStore) Eq(a, b *Term) *Term {
	if a == b {
		if a.sort.k != sFP {
			return ts.Bool(true)
		}
	}
	if a.isC && b.isC && a.sort.k != sFP {
		return ts.Bool(a.cv == b.cv)
	}
	if a.sort.k == sBool {
		if a.isC {
			if a.boolVal() {
				return b
			}
			return ts.Not(b)
		}
		if b.isC {
			if b.boolVal() {
				return a
			}
			return ts.Not(a)
		}
	}
	if a.id > b.id {
		a, b = b, a
	}
	return ts.intern(&Term{op: "=", args: []*Term{a, b}, sort: boolSort})
}

// ---- bit-vectors

func (ts *TermStore) BvBin(op string, a, b *Term) *Term {
	w := a.sort.w
	if a.sort != b.sort {
		panic(engineBug{fmt.Sprintf("BvBin %s: sort mismatch %v %v", op, a.sort, b.sort)})
	}
	if a.isC && b.isC {
		x, y := a.cv, b.cv
		sx, sy := sext(x, w), sext(y, w)
		switch op {
		case "bvadd":
			return ts.BV(x+y, w)
		case "bvsub":
			return ts.BV(x-y, w)
		case "bvmul":
			return ts.BV(x*y, w)
		case "bvand":
			return ts.BV(x&y, w)
		case "bvor":
			return ts.BV(x|y, w)
		case "bvxor":
			return ts.BV(x^y, w)
		case "bvudiv":
			if y != 0 {
				return ts.BV(x/y, w)
			}
		case "bvurem":
			if y != 0 {
				return ts.BV(x%y, w)
			}
		case "bvsdiv":
			if y != 0 {
				if sy == -1 {
					return ts.BV(uint64(-sx), w)
				}
				return ts.BV(uint64(sx/sy), w)
			}
		case "bvsrem":
			if y != 0 {
				if sy == -1 {
					return ts.BV(0, w)
				}
				return ts.BV(uint64(sx%sy), w)
			}
		case "bvshl":
			if y >= uint64(w) {
				return ts.BV(0, w)
			}
			return ts.BV(x<<y, w)
		case "bvlshr":
			if y >= uint64(w) {
				return ts.BV(0, w)
			}
			return ts.BV(x>>y, w)
		case "bvashr":
			if y >= uint64(w) {
				y = uint64(w - 1)
			}
			return ts.BV(uint64(sx>>y), w)
		}
	}
	// light identities
	switch op {
	case "bvadd", "bvor", "bvxor":
		if a.isC && a.cv == 0 {
			return b
		}
		if b.isC && b.cv == 0 {
			return a
		}
	case "bvsub", "bvshl", "bvlshr", "bvashr":
		if b.isC && b.cv == 0 {
			return a
		}
	case "bvmul":
		if a.isC && a.cv == 1 {
			return b
		}
		if b.isC && b.cv == 1 {
			return a
		}
		if (a.isC && a.cv == 0) || (b.isC && b.cv == 0) {
			return ts.BV(0, w)
		}
	case "bvand":
		if (a.isC && a.cv == 0) || (b.isC && b.cv == 0) {
			return ts.BV(0, w)
		}
		if a.isC && a.cv == mask(w) {
			return b
		}
		if b.isC && b.cv == mask(w) {
			return a
		}
	}
	return ts.intern(&Term{op: op, args: []*Term{a, b}, sort: a.sort})
}

func (ts *TermStore) BvNeg(a *Term) *Term {
	if a.isC {
		return ts.BV(-a.cv, a.sort.w)
	}
	return ts.intern(&Term{op: "bvneg", args: []*Term{a}, sort: a.sort})
}

func (ts *TermStore) BvNot(a *Term) *Term {
	if a.isC {
		return ts.BV(^a.cv, a.sort.w)
	}
	return ts.intern(&Term{op: "bvnot", args: []*Term{a}, sort: a.sort})
}

// BvRel builds a comparison: bvult bvule bvugt bvuge bvslt bvsle bvsgt bvsge.
func (ts *TermStore) BvRel(op string, a, b *Term) *Term {
	if a.sort != b.sort {
		panic(engineBug{fmt.Sprintf("BvRel %s: sort mismatch %v %v", op, a.sort, b.sort)})
	}
	w := a.sort.w
	if a.isC && b.isC {
		x, y := a.cv, b.cv
		sx, sy := sext(x, w), sext(y, w)
		switch op {
		case "bvult":
			return ts.Bool(x < y)
		case "bvule":
			return ts.Bool(x <= y)
		case "bvugt":
			return ts.Bool(x > y)
		case "bvuge":
			return ts.Bool(x >= y)
		case "bvslt":
			return ts.Bool(sx < sy)
		case "bvsle":
			return ts.Bool(sx <= sy)
		case "bvsgt":
			return ts.Bool(sx > sy)
		case "bvsge":
			return ts.Bool(sx >= sy)
		}
	}
	if a == b {
		switch op {
		case "bvule", "bvuge", "bvsle", "bvsge":
			return ts.Bool(true)
		default:
			return ts.Bool(false)
		}
	}
	// zero_extend'ed small values against constants: cheap range facts
	if op == "bvult" || op == "bvuge" || op == "bvugt" || op == "bvule" {
		if a.op == "zero_extend" && b.isC {
			sw := a.args[0].sort.w
			if sw < 64 && b.cv > mask(sw) {
				switch op {
				case "bvult", "bvule":
					return ts.Bool(true)
				default:
					return ts.Bool(false)
				}
			}
		}
	}
	return ts.intern(&Term{op: op, args: []*Term{a, b}, sort: boolSort})
}

func (ts *TermStore) Extract(hi, lo int, a *Term) *Term {
	if lo == 0 && hi == a.sort.w-1 {
		return a
	}
	if a.isC {
		return ts.BV(a.cv>>uint(lo), hi-lo+1)
	}
	if (a.op == "zero_extend" || a.op == "sign_extend") && hi < a.args[0].sort.w {
		return ts.Extract(hi, lo, a.args[0])
	}
	if a.op == "concat" {
		lw := a.args[1].sort.w
		if hi < lw {
			return ts.Extract(hi, lo, a.args[1])
		}
		if lo >= lw {
			return ts.Extract(hi-lw, lo-lw, a.args[0])
		}
	}
	return ts.intern(&Term{op: "extract", args: []*Term{a}, sort: bvSort(hi - lo + 1), ix: [2]int{hi + 1, lo + 1}})
}

func (ts *TermStore) ZeroExt(a *Term, w int) *Term {
	if w == a.sort.w {
		return a
	}
	if w < a.sort.w {
		return ts.Extract(w-1, 0, a)
	}
	if a.isC {
		return ts.BV(a.cv, w)
	}
	if a.op == "zero_extend" {
		return ts.ZeroExt(a.args[0], w)
	}
	return ts.intern(&Term{op: "zero_extend", args: []*Term{a}, sort: bvSort(w), ix: [2]int{w - a.sort.w + 1, 0}})
}

func (ts *TermStore) SignExt(a *Term, w int) *Term {
	if w == a.sort.w {
		return a
	}
	if w < a.sort.w {
		return ts.Extract(w-1, 0, a)
	}
	if a.isC {
		return ts.BV(uint64(sext(a.cv, a.sort.w)), w)
	}
	return ts.intern(&Term{op: "sign_extend", args: []*Term{a}, sort: bvSort(w), ix: [2]int{w - a.sort.w + 1, 0}})
}

func (ts *TermStore) Concat(hi, lo *Term) *Term {
	w := hi.sort.w + lo.sort.w
	if hi.isC && lo.isC && w <= 64 {
		return ts.BV(hi.cv<<uint(lo.sort.w)|lo.cv, w)
	}
	if hi.isC && hi.cv == 0 {
		return ts.ZeroExt(lo, w)
	}
	return ts.intern(&Term{op: "concat", args: []*Term{hi, lo}, sort: bvSort(w)})
}

// ---- floating point

func (ts *TermStore) fconst(f float64, w int) *Term {
	if w == 32 {
		return ts.F32(float32(f))
	}
	return ts.F64(f)
}

func (ts *TermStore) FpBin(op string, a, b *Term) *Term {
	if a.isC && b.isC {
		x, y := a.f64(), b.f64()
		w := a.sort.w
		if w == 32 {
			x32, y32 := float32(x), float32(y)
			switch op {
			case "fp.add":
				return ts.F32(x32 + y32)
			case "fp.sub":
				return ts.F32(x32 - y32)
			case "fp.mul":
				return ts.F32(x32 * y32)
			case "fp.div":
				return ts.F32(x32 / y32)
			}
		} else {
			switch op {
			case "fp.add":
				return ts.F64(x + y)
			case "fp.sub":
				return ts.F64(x - y)
			case "fp.mul":
				return ts.F64(x * y)
			case "fp.div":
				return ts.F64(x / y)
			}
		}
	}
	return ts.intern(&Term{op: op, args: []*Term{a, b}, sort: a.sort})
}

func (ts *TermStore) FpNeg(a *Term) *Term {
	if a.isC {
		if a.sort.w == 32 {
			return ts.F32(-float32(a.f64()))
		}
		return ts.F64(-a.f64())
	}
	return ts.intern(&Term{op: "fp.neg", args: []*Term{a}, sort: a.sort})
}

func (ts *TermStore) FpSqrt(a *Term) *Term {
	if a.isC && a.sort.w == 64 {
		return ts.F64(math.Sqrt(a.f64()))
	}
	return ts.intern(&Term{op: "fp.sqrt", args: []*Term{a}, sort: a.sort})
}

// FpRel: fp.eq fp.lt fp.leq fp.gt fp.geq
func (ts *TermStore) FpRel(op string, a, b *Term) *Term {
	if a.isC && b.isC {
		x, y := a.f64(), b.f64()
		switch op {
		case "fp.eq":
			return ts.Bool(x == y)
		case "fp.lt":
			return ts.Bool(x < y)
		case "fp.leq":
			return ts.Bool(x <= y)
		case "fp.gt":
			return ts.Bool(x > y)
		case "fp.geq":
			return ts.Bool(x >= y)
		}
	}
	return ts.intern(&Term{op: op, args: []*Term{a, b}, sort: boolSort})
}

func (ts *TermStore) FpIsNaN(a *Term) *Term {
	if a.isC {
		return ts.Bool(math.IsNaN(a.f64()))
	}
	return ts.intern(&Term{op: "fp.isNaN", args: []*Term{a}, sort: boolSort})
}

// IntToFp converts a bit-vector (signed or unsigned) to FP of width fw.
func (ts *TermStore) IntToFp(a *Term, signed bool, fw int) *Term {
	if a.isC {
		if signed {
			return ts.fconst(float64(sext(a.cv, a.sort.w)), fw)
		}
		return ts.fconst(float64(a.cv), fw)
	}
	op := "to_fp"
	if !signed {
		op = "to_fp_unsigned"
	}
	return ts.intern(&Term{op: op, args: []*Term{a}, sort: fpSort(fw)})
}

// FpToFp converts between FP widths.
func (ts *TermStore) FpToFp(a *Term, fw int) *Term {
	if a.sort.w == fw {
		return a
	}
	if a.isC {
		return ts.fconst(a.f64(), fw)
	}
	return ts.intern(&Term{op: "to_fp", args: []*Term{a}, sort: fpSort(fw)})
}

// FpToBV converts with round-toward-zero (raw SMT semantics: unspecified
// when out of range; callers guard the range).
func (ts *TermStore) FpToBV(a *Term, signed bool, w int) *Term {
	op := "fp.to_sbv"
	if !signed {
		op = "fp.to_ubv"
	}
	return ts.intern(&Term{op: op, args: []*Term{a}, sort: bvSort(w)})
}

// FpBits returns the IEEE bit pattern as an uninterpreted-but-constrained
// bit-vector: SMT-LIB has no fp->bv reinterpretation, so this introduces a
// fresh variable b with (= ((_ to_fp e s) b) a). NaN payloads are thus
// arbitrary, as SMT-LIB has a single NaN.
func (ts *TermStore) FpFromBits(b *Term, fw int) *Term {
	if b.isC {
		if fw == 32 {
			return ts.F32(math.Float32frombits(uint32(b.cv)))
		}
		return ts.F64(math.Float64frombits(b.cv))
	}
	return ts.intern(&Term{op: "to_fp_bits", args: []*Term{b}, sort: fpSort(fw)})
}

// App builds an application of an uninterpreted function; the declaration is
// emitted by the session on first use.
func (ts *TermStore) App(fn string, s Sort, args ...*Term) *Term {
	return ts.intern(&Term{op: "uf:" + fn, args: args, sort: s})
}

// ---- printing

func bvLit(v uint64, w int) string {
	if w%4 == 0 {
		return fmt.Sprintf("#x%0*x", w/4, v&mask(w))
	}
	return fmt.Sprintf("#b%0*b", w, v&mask(w))
}

func fpLit(bitsv uint64, w int) string {
	if w == 32 {
		b := uint32(bitsv)
		return fmt.Sprintf("(fp #b%b #b%08b #b%023b)", b>>31, (b>>23)&0xff, b&0x7fffff)
	}
	return fmt.Sprintf("(fp #b%b #b%011b #b%052b)", bitsv>>63, (bitsv>>52)&0x7ff, bitsv&((1<<52)-1))
}

func (t *Term) ref() string {
	if t.isC {
		switch t.sort.k {
		case sBool:
			if t.cv != 0 {
				return "true"
			}
			return "false"
		case sBV:
			return bvLit(t.cv, t.sort.w)
		default:
			return fpLit(t.cv, t.sort.w)
		}
	}
	if t.op == "var" {
		return t.name
	}
	return fmt.Sprintf("t%d", t.id)
}

// body renders the defining expression of a non-leaf term.
func (t *Term) body() string {
	var sb strings.Builder
	sb.WriteByte('(')
	switch t.op {
	case "extract":
		fmt.Fprintf(&sb, "(_ extract %d %d)", t.ix[0]-1, t.ix[1]-1)
	case "zero_extend", "sign_extend":
		fmt.Fprintf(&sb, "(_ %s %d)", t.op, t.ix[0]-1)
	case "to_fp", "to_fp_unsigned":
		eb, sbits := 11, 53
		if t.sort.w == 32 {
			eb, sbits = 8, 24
		}
		fmt.Fprintf(&sb, "(_ %s %d %d) RNE", t.op, eb, sbits)
	case "to_fp_bits":
		eb, sbits := 11, 53
		if t.sort.w == 32 {
			eb, sbits = 8, 24
		}
		fmt.Fprintf(&sb, "(_ to_fp %d %d)", eb, sbits)
	case "fp.to_sbv", "fp.to_ubv":
		fmt.Fprintf(&sb, "(_ %s %d) RTZ", t.op, t.sort.w)
	case "fp.add", "fp.sub", "fp.mul", "fp.div", "fp.sqrt":
		sb.WriteString(t.op + " RNE")
	default:
		if strings.HasPrefix(t.op, "uf:") {
			sb.WriteString(t.op[3:])
		} else {
			sb.WriteString(t.op)
		}
	}
	for _, a := range t.args {
		sb.WriteByte(' ')
		sb.WriteString(a.ref())
	}
	sb.WriteByte(')')
	return sb.String()
}

// evalConst evaluates a term under a model (var name -> constant term value
// bits). Used to predict observations; returns ok=false if an operator is
// not supported by the evaluator (then the solver is asked instead).
var _ = bits.Len64

// ---- evaluation under a model (used to avoid solver queries: a branch side
// that the current model satisfies is feasible without asking)

// evalUnder rebuilds t with every variable replaced by its model value; the
// constructors fold constants, so the result is a constant whenever every
// operator on the way can be evaluated. memo caches per-model results.
func (ts *TermStore) evalUnder(t *Term, model map[*Term]uint64, memo map[*Term]*Term) *Term {
	if t.isC {
		return t
	}
	if r, ok := memo[t]; ok {
		return r
	}
	var r *Term
	if t.op == "var" {
		v, ok := model[t]
		if !ok {
			memo[t] = nil
			return nil
		}
		switch t.sort.k {
		case sBool:
			r = ts.Bool(v != 0)
		case sBV:
			r = ts.BV(v, t.sort.w)
		default:
			r = ts.intern(&Term{op: "const", sort: t.sort, cv: v, isC: true})
		}
		memo[t] = r
		return r
	}
	args := make([]*Term, len(t.args))
	for i, a := range t.args {
		// short-circuit ite / and / or to keep evaluation cheap
		args[i] = ts.evalUnder(a, model, memo)
		if args[i] == nil {
			memo[t] = nil
			return nil
		}
		if i == 0 && t.op == "ite" && args[0].isC {
			var pick *Term
			if args[0].boolVal() {
				pick = ts.evalUnder(t.args[1], model, memo)
			} else {
				pick = ts.evalUnder(t.args[2], model, memo)
			}
			memo[t] = pick
			return pick
		}
	}
	switch t.op {
	case "not":
		r = ts.Not(args[0])
	case "and":
		r = ts.And(args[0], args[1])
	case "or":
		r = ts.Or(args[0], args[1])
	case "ite":
		r = ts.Ite(args[0], args[1], args[2])
	case "=":
		r = ts.Eq(args[0], args[1])
	case "bvadd", "bvsub", "bvmul", "bvand", "bvor", "bvxor", "bvudiv", "bvurem", "bvsdiv", "bvsrem", "bvshl", "bvlshr", "bvashr":
		r = ts.BvBin(t.op, args[0], args[1])
	case "bvneg":
		r = ts.BvNeg(args[0])
	case "bvnot":
		r = ts.BvNot(args[0])
	case "bvult", "bvule", "bvugt", "bvuge", "bvslt", "bvsle", "bvsgt", "bvsge":
		r = ts.BvRel(t.op, args[0], args[1])
	case "extract":
		r = ts.Extract(t.ix[0]-1, t.ix[1]-1, args[0])
	case "zero_extend":
		r = ts.ZeroExt(args[0], t.sort.w)
	case "sign_extend":
		r = ts.SignExt(args[0], t.sort.w)
	case "concat":
		r = ts.Concat(args[0], args[1])
	case "fp.add", "fp.sub", "fp.mul", "fp.div":
		r = ts.FpBin(t.op, args[0], args[1])
	case "fp.neg":
		r = ts.FpNeg(args[0])
	case "fp.eq", "fp.lt", "fp.leq", "fp.gt", "fp.geq":
		r = ts.FpRel(t.op, args[0], args[1])
	case "fp.isNaN":
		r = ts.FpIsNaN(args[0])
	case "to_fp":
		if t.args[0].sort.k == sBV {
			r = ts.IntToFp(args[0], true, t.sort.w)
		} else {
			r = ts.FpToFp(args[0], t.sort.w)
		}
	case "to_fp_unsigned":
		r = ts.IntToFp(args[0], false, t.sort.w)
	case "to_fp_bits":
		r = ts.FpFromBits(args[0], t.sort.w)
	}
	if r != nil && !r.isC {
		r = nil
	}
	memo[t] = r
	return r
}
