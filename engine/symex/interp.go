// Copyright 2013 The Go Authors. All rights reserved.
// Use of this source code is governed by a BSD-style
// license that can be found in the LICENSE file.

// Package ssa/interp defines an interpreter for the SSA
// representation of Go programs.
//
// This interpreter is provided as an adjunct for testing the SSA
// construction algorithm.  Its purpose is to provide a minimal
// metacircular implementation of the dynamic semantics of each SSA
// instruction.  It is not, and will never be, a production-quality Go
// interpreter.
//
// The following is a partial list of Go features that are currently
// unsupported or incomplete in the interpreter.
//
// * Unsafe operations, including all uses of unsafe.Pointer, are
// impossible to support given the "boxed" value representation we
// have chosen.
//
// * The reflect package is only partially implemented.
//
// * The "testing" package is no longer supported because it
// depends on low-level details that change too often.
//
// * "sync/atomic" operations are not atomic due to the "boxed" value
// representation: it is not possible to read, modify and write an
// interface value atomically. As a consequence, Mutexes are currently
// broken.
//
// * recover is only partially implemented.  Also, the interpreter
// makes no attempt to distinguish target panics from interpreter
// crashes.
//
// * the sizes of the int, uint and uintptr types in the target
// program are assumed to be the same as those of the interpreter
// itself.
//
// * all values occupy space, even those of types defined by the spec
// to have zero size, e.g. struct{}.  This can cause asymptotic
// performance degradation.
//
// * os.Exit is implemented using panic, causing deferred functions to
// run.
package symex // import "golang.org/x/tools/go/ssa/interp"

import (
	"fmt"
	"go/token"
	"go/types"
	"log"
	"os"
	"path/filepath"
	"runtime"
	"slices"
	"sort"
	"strings"
	_ "unsafe"

	"golang.org/x/tools/go/ssa"
	"golang.org/x/tools/go/ssa/ssautil"
)

func ssautilAllFunctions(p *ssa.Program) map[*ssa.Function]bool { return ssautil.AllFunctions(p) }

type continuation int

const (
	kNext continuation = iota
	kReturn
	kJump
)

// Mode is a bitmask of options affecting the interpreter.
type Mode uint

const (
	DisableRecover Mode = 1 << iota // Disable recover() in target programs; show interpreter crash instead.
	EnableTracing                   // Print a trace of all instructions as they are interpreted.
)

type methodSet map[string]*ssa.Function

// State shared between all interpreted goroutines.
type interpreter struct {
	osArgs             []value                // the value of os.Args
	prog               *ssa.Program           // the SSA program
	globals            map[*ssa.Global]*value // addresses of global variables (immutable)
	mode               Mode                   // interpreter options
	reflectPackage     *ssa.Package           // the fake reflect package
	errorMethods       methodSet              // the method set of reflect.error, which implements the error interface.
	rtypeMethods       methodSet              // the method set of rtype, which implements the reflect.Type interface.
	runtimeErrorString types.Type             // the runtime.errorString type
	sizes              types.Sizes            // the effective type-sizing function
	path               *Path                  // the path being executed
	ld                 *Loaded
	w                  *Worker
	onceDone           map[*value]bool
	syncMaps           map[*value]*omap
	closedGlobal       map[chan value]bool
	zeroBase           map[string]*value
	stdStreams         map[string]*value // os.Stdin/Stdout/Stderr placeholders
	depth              int
}

type deferred struct {
	fn    value
	args  []value
	instr *ssa.Defer
	tail  *deferred
}

type frame struct {
	i                *interpreter
	caller           *frame
	fn               *ssa.Function
	block, prevBlock *ssa.BasicBlock
	env              map[ssa.Value]value // dynamic values of SSA variables
	locals           []value
	defers           *deferred
	result           value
	panicking        bool
	panic            interface{}
	phitemps         []value // temporaries for parallel phi assignment
}

func (fr *frame) get(key ssa.Value) value {
	switch key := key.(type) {
	case nil:
		// Hack; simplifies handling of optional attributes
		// such as ssa.Slice.{Low,High}.
		return nil
	case *ssa.Function, *ssa.Builtin:
		return key
	case *ssa.Const:
		return constValue(key)
	case *ssa.Global:
		if r, ok := fr.i.globals[key]; ok {
			return r
		}
	}
	if r, ok := fr.env[key]; ok {
		return r
	}
	panic(fmt.Sprintf("get: no value for %T: %v", key, key.Name()))
}

// runDefer runs a deferred call d.
// It always returns normally, but may set or clear fr.panic.
func (fr *frame) runDefer(d *deferred) {
	var ok bool
	defer func() {
		if !ok {
			// Deferred call created a new state of panic.
			r := recover()
			if isEngineAbort(r) {
				panic(r)
			}
			fr.panicking = true
			fr.panic = normalizePanic(r)
		}
	}()
	call(fr.i, fr, d.instr.Pos(), d.fn, d.args)
	ok = true
}

// runDefers executes fr's deferred function calls in LIFO order.
//
// On entry, fr.panicking indicates a state of panic; if
// true, fr.panic contains the panic value.
//
// On completion, if a deferred call started a panic, or if no
// deferred call recovered from a previous state of panic, then
// runDefers itself panics after the last deferred call has run.
//
// If there was no initial state of panic, or it was recovered from,
// runDefers returns normally.
func (fr *frame) runDefers() {
	for d := fr.defers; d != nil; d = d.tail {
		fr.runDefer(d)
	}
	fr.defers = nil
	if fr.panicking {
		panic(fr.panic) // new panic, or still panicking
	}
}

// lookupMethod returns the method set for type typ, which may be one
// of the interpreter's fake types.
func lookupMethod(i *interpreter, typ types.Type, meth *types.Func) *ssa.Function {
	switch typ {
	case rtypeType:
		return i.rtypeMethods[meth.Id()]
	case errorType:
		return i.errorMethods[meth.Id()]
	}
	return i.prog.LookupMethod(typ, meth.Pkg(), meth.Name())
}

// visitInstr interprets a single ssa.Instruction within the activation
// record frame.  It returns a continuation value indicating where to
// read the next instruction from.
func visitInstr(fr *frame, instr ssa.Instruction) continuation {
	fr.i.path.step()
	switch instr := instr.(type) {
	case *ssa.DebugRef:
		// no-op

	case *ssa.UnOp:
		fr.env[instr] = unop(fr, instr, fr.get(instr.X))

	case *ssa.BinOp:
		fr.env[instr] = binop(fr.i.path, instr.Op, instr.X.Type(), fr.get(instr.X), fr.get(instr.Y))

	case *ssa.Call:
		fn, args := prepareCall(fr, &instr.Call)
		fr.env[instr] = call(fr.i, fr, instr.Pos(), fn, args)

	case *ssa.ChangeInterface:
		fr.env[instr] = fr.get(instr.X)

	case *ssa.ChangeType:
		fr.env[instr] = fr.get(instr.X) // (can't fail)

	case *ssa.Convert:
		fr.env[instr] = conv(fr, instr.Type(), instr.X.Type(), fr.get(instr.X))

	case *ssa.SliceToArrayPointer:
		fr.env[instr] = sliceToArrayPointer(instr.Type(), instr.X.Type(), fr.get(instr.X))

	case *ssa.MakeInterface:
		fr.env[instr] = iface{t: instr.X.Type(), v: fr.get(instr.X)}

	case *ssa.Extract:
		fr.env[instr] = fr.get(instr.Tuple).(tuple)[instr.Index]

	case *ssa.Slice:
		fr.env[instr] = slice(fr.i.path, fr.get(instr.X), fr.get(instr.Low), fr.get(instr.High), fr.get(instr.Max))

	case *ssa.Return:
		switch len(instr.Results) {
		case 0:
		case 1:
			fr.result = fr.get(instr.Results[0])
		default:
			var res []value
			for _, r := range instr.Results {
				res = append(res, fr.get(r))
			}
			fr.result = tuple(res)
		}
		fr.block = nil
		return kReturn

	case *ssa.RunDefers:
		fr.runDefers()

	case *ssa.Panic:
		panic(targetPanic{fr.get(instr.X)})

	case *ssa.Send:
		fr.i.path.unsupported("channel send")

	case *ssa.Store:
		addr := fr.get(instr.Addr).(*value)
		if addr == nil {
			panic(targetRuntimeError{"invalid memory address or nil pointer dereference"})
		}
		if fr.i.path.tm != nil {
			fr.i.path.logAccess(addr, true, fr)
		}
		store(mustDeref(instr.Addr.Type()), addr, fr.get(instr.Val))

	case *ssa.If:
		succ := 1
		if fr.i.path.truth(fr.get(instr.Cond)) {
			succ = 0
		}
		fr.prevBlock, fr.block = fr.block, fr.block.Succs[succ]
		return kJump

	case *ssa.Jump:
		fr.prevBlock, fr.block = fr.block, fr.block.Succs[0]
		return kJump

	case *ssa.Defer:
		fn, args := prepareCall(fr, &instr.Call)
		defers := &fr.defers
		if into := fr.get(instr.DeferStack); into != nil {
			defers = into.(**deferred)
		}
		*defers = &deferred{
			fn:    fn,
			args:  args,
			instr: instr,
			tail:  *defers,
		}

	case *ssa.Go:
		// A goroutine started by the code under test is modelled as not yet
		// scheduled for as long as the harness runs - a schedule the Go
		// runtime is always free to choose (GOMAXPROCS=1, busy caller). Code
		// that depends on the new goroutine having run already is exposed;
		// code that waits for it blocks and ends the path as unsupported.
		fn, args := prepareCall(fr, &instr.Call)
		fr.i.path.pendingGo = append(fr.i.path.pendingGo, pendingGoroutine{fn, args})

	case *ssa.MakeChan:
		fr.env[instr] = make(chan value, asInt64(fr.get(instr.Size))+1)

	case *ssa.Alloc:
		var addr *value
		if instr.Heap {
			// new
			et := mustDeref(instr.Type())
			if isZeroSize(et) {
				// gc gives every zero-size heap object the same address
				// (runtime.zerobase); code that compares such pointers
				// (e.g. against a global &T{}) relies on it.
				key := et.String()
				if zp, ok := fr.i.zeroBase[key]; ok {
					fr.env[instr] = zp
					break
				}
				addr = new(value)
				fr.i.zeroBase[key] = addr
				fr.env[instr] = addr
			} else {
				addr = new(value)
				fr.env[instr] = addr
			}
		} else {
			// local
			addr = fr.env[instr].(*value)
		}
		*addr = zero(mustDeref(instr.Type()))

	case *ssa.MakeSlice:
		ln := fr.i.path.allocLen(fr.get(instr.Len), "make len")
		cp := fr.i.path.allocLen(fr.get(instr.Cap), "make cap")
		if ln < 0 || cp < ln || cp > 1<<24 {
			if ln < 0 || cp < ln {
				panic(targetRuntimeError{"makeslice: len out of range"})
			}
			fr.i.path.unsupported("makeslice: %d elements exceed the engine's allocation bound", cp)
		}
		slice := make([]value, cp)
		tElt := instr.Type().Underlying().(*types.Slice).Elem()
		for i := range slice {
			slice[i] = zero(tElt)
		}
		fr.env[instr] = slice[:ln]

	case *ssa.MakeMap:
		fr.env[instr] = newOmap(instr.Type().Underlying().(*types.Map).Key())

	case *ssa.Range:
		fr.env[instr] = rangeIter(fr, fr.get(instr.X), instr.X.Type())

	case *ssa.Next:
		fr.env[instr] = fr.get(instr.Iter).(iter).next()

	case *ssa.FieldAddr:
		px := fr.get(instr.X).(*value)
		if px == nil {
			panic(targetRuntimeError{"invalid memory address or nil pointer dereference"})
		}
		fr.env[instr] = &(*px).(structure)[instr.Field]

	case *ssa.Field:
		fr.env[instr] = fr.get(instr.X).(structure)[instr.Field]

	case *ssa.IndexAddr:
		x := fr.get(instr.X)
		idx := fr.get(instr.Index)
		switch x := x.(type) {
		case []value:
			if sp, ok := lazyElemPtr(fr, instr, x, idx); ok {
				fr.env[instr] = sp
				break
			}
			fr.env[instr] = &x[fr.i.path.forkIndex(idx, len(x), "slice index")]
		case *value: // *array
			if x == nil {
				panic(targetRuntimeError{"invalid memory address or nil pointer dereference"})
			}
			a := (*x).(array)
			if sp, ok := lazyElemPtr(fr, instr, a, idx); ok {
				fr.env[instr] = sp
				break
			}
			fr.env[instr] = &a[fr.i.path.forkIndex(idx, len(a), "array index")]
		default:
			panic(fmt.Sprintf("unexpected x type in IndexAddr: %T", x))
		}

	case *ssa.Index:
		x := fr.get(instr.X)
		idx := fr.get(instr.Index)

		switch x := x.(type) {
		case array:
			fr.env[instr] = fr.i.path.selectFrom(x, idx, "array index")
		case string:
			if _, sym := idx.(symInt); sym {
				fr.env[instr] = fr.i.path.selectFrom(strBytes(x), idx, "string index")
			} else {
				fr.env[instr] = x[fr.i.path.forkIndex(idx, len(x), "string index")]
			}
		case symString:
			fr.env[instr] = fr.i.path.selectFrom(strBytes(x), idx, "string index")
		default:
			panic(fmt.Sprintf("unexpected x type in Index: %T", x))
		}

	case *ssa.Lookup:
		if fr.i.path.tm != nil {
			if om, ok := fr.get(instr.X).(*omap); ok && om != nil {
				fr.i.path.logAccess(om, false, fr)
			}
		}
		fr.env[instr] = lookup(fr.i.path, instr, fr.get(instr.X), fr.get(instr.Index))

	case *ssa.MapUpdate:
		m := fr.get(instr.Map)
		key := fr.get(instr.Key)
		v := fr.get(instr.Value)
		if fr.i.path.tm != nil {
			fr.i.path.logAccess(m.(*omap), true, fr)
		}
		m.(*omap).insert(fr.i.path, key, v)

	case *ssa.TypeAssert:
		fr.env[instr] = typeAssert(fr.i, instr, fr.get(instr.X).(iface))

	case *ssa.MakeClosure:
		var bindings []value
		for _, binding := range instr.Bindings {
			bindings = append(bindings, fr.get(binding))
		}
		fr.env[instr] = &closure{instr.Fn.(*ssa.Function), bindings}

	case *ssa.Phi:
		log.Fatal("unreachable") // phis are processed at block entry

	case *ssa.Select:
		fr.env[instr] = doSelect(fr, instr)

	default:
		panic(fmt.Sprintf("unexpected instruction: %T", instr))
	}

	// if val, ok := instr.(ssa.Value); ok {
	// 	fmt.Println(toString(fr.env[val])) // debugging
	// }

	return kNext
}

// prepareCall determines the function value and argument values for a
// function call in a Call, Go or Defer instruction, performing
// interface method lookup if needed.
func prepareCall(fr *frame, call *ssa.CallCommon) (fn value, args []value) {
	v := fr.get(call.Value)
	if call.Method == nil {
		// Function call.
		fn = v
	} else {
		// Interface method invocation.
		recv := v.(iface)
		if recv.t == nil {
			panic("method invoked on nil interface")
		}
		if f := lookupMethod(fr.i, recv.t, call.Method); f == nil {
			// Unreachable in well-typed programs.
			panic(fmt.Sprintf("method set for dynamic type %v does not contain %s", recv.t, call.Method))
		} else {
			fn = f
		}
		args = append(args, recv.v)
	}
	for _, arg := range call.Args {
		args = append(args, fr.get(arg))
	}
	return
}

// call interprets a call to a function (function, builtin or closure)
// fn with arguments args, returning its result.
// callpos is the position of the callsite.
func call(i *interpreter, caller *frame, callpos token.Pos, fn value, args []value) value {
	switch fn := fn.(type) {
	case *ssa.Function:
		if fn == nil {
			panic("call of nil function") // nil of func type
		}
		return callSSA(i, caller, callpos, fn, args, nil)
	case *closure:
		return callSSA(i, caller, callpos, fn.Fn, args, fn.Env)
	case *ssa.Builtin:
		return callBuiltin(caller, callpos, fn, args)
	case nativeFn:
		return fn(caller, args)
	}
	panic(engineBug{fmt.Sprintf("cannot call %T", fn)})
}

// forbidden records that the path reached something C10 excludes (the
// engine has no model for file, network or process primitives; reaching one
// is a counterexample) and ends the path.
func (i *interpreter) forbidden(name, why string, caller *frame) {
	p := i.path
	p.forbidden = append(p.forbidden, name)
	func() {
		defer func() { recover() }()
		r, mv := p.sess.CheckWith(nil, p.inputTerms())
		if r == Sat {
			c := p.mkCand("C10.forbidden", "", mv)
			c.PanicMsg = "reached " + name + " (" + why + ")"
			if caller != nil {
				c.PanicMsg += " from " + caller.fn.String()
			}
			p.cands = append(p.cands, c)
		}
	}()
	p.sites["C10.forbidden"]++
	p.abort(abDone, "forbidden call: "+name)
}

func loc(fset *token.FileSet, pos token.Pos) string {
	if pos == token.NoPos {
		return ""
	}
	return " at " + fset.Position(pos).String()
}

// callSSA interprets a call to function fn with arguments args,
// and lexical environment env, returning its result.
// callpos is the position of the callsite.
func callSSA(i *interpreter, caller *frame, callpos token.Pos, fn *ssa.Function, args []value, env []value) value {
	fr := &frame{
		i:      i,
		caller: caller, // for panic/recover
		fn:     fn,
	}
	i.depth++
	defer func() { i.depth-- }()
	if i.depth > 12000 {
		if i.path.mustTerminate != "" {
			// the harness demanded termination: endless recursion (natively a
			// fatal stack overflow) is a failed assertion, not a bound
			i.path.abort(abBudget, "call depth")
		}
		i.path.unsupported("interpreted call depth exceeds 12000 (unbounded recursion in the program?)")
	}
	if fn.Parent() == nil {
		name := fn.String()
		if fn.Name() == "init" && fn.Synthetic != "" && fn.Pkg != nil && !i.ld.initAllowed(fn.Pkg.Pkg.Path()) {
			return nil
		}
		if ext := externals[name]; ext != nil && (!driverOnly[name] || callerIsDriver(caller)) {
			if strings.HasPrefix(name, "(reflect.") || strings.HasPrefix(name, "reflect.") {
				return callReflectExt(fr, name, ext, args)
			}
			return ext(fr, args)
		}
		if fn.Pkg != nil {
			if why := forbiddenPkg(fn.Pkg.Pkg.Path()); why != "" {
				i.forbidden(name, why, caller)
			}
		}
		if fn.Blocks == nil {
			i.path.unsupported("no code and no model for function %s", name)
		}
	}
	if i.path.funcs != nil && fn.Pkg != nil {
		i.path.funcs[fn.String()] = true
	}

	// generic function body?
	if fn.TypeParams().Len() > 0 && len(fn.TypeArgs()) == 0 {
		panic(engineBug{"generic function without instantiation: " + fn.String()})
	}

	fr.env = make(map[ssa.Value]value)
	fr.block = fn.Blocks[0]
	fr.locals = make([]value, len(fn.Locals))
	for i, l := range fn.Locals {
		fr.locals[i] = zero(mustDeref(l.Type()))
		fr.env[l] = &fr.locals[i]
	}
	for i, p := range fn.Params {
		fr.env[p] = args[i]
	}
	for i, fv := range fn.FreeVars {
		fr.env[fv] = env[i]
	}
	for fr.block != nil {
		runFrame(fr)
	}
	return fr.result
}

// symElemPtr is &elems[idx] for a symbolic idx whose only use is a load:
// the load becomes an if-then-else chain instead of a fork per element.
type symElemPtr struct {
	elems []value
	idx   symInt
}

func lazyElemPtr(fr *frame, instr *ssa.IndexAddr, elems []value, idx value) (value, bool) {
	si, ok := idx.(symInt)
	if !ok || len(elems) < 3 {
		return nil, false
	}
	refs := instr.Referrers()
	if refs == nil || len(*refs) != 1 {
		return nil, false
	}
	u, ok := (*refs)[0].(*ssa.UnOp)
	if !ok || u.Op != token.MUL {
		return nil, false
	}
	k0, ok := intKind(elems[0])
	if !ok {
		return nil, false
	}
	for _, e := range elems {
		if k, ok := intKind(e); !ok || k != k0 {
			return nil, false
		}
	}
	return symElemPtr{elems, si}, true
}

func isZeroSize(t types.Type) bool {
	switch u := t.Underlying().(type) {
	case *types.Struct:
		for i := 0; i < u.NumFields(); i++ {
			if !isZeroSize(u.Field(i).Type()) {
				return false
			}
		}
		return true
	case *types.Array:
		return u.Len() == 0 || isZeroSize(u.Elem())
	}
	return false
}

// callReflectExt runs a reflect emulation; applying a Value method to the
// wrong kind is a panic of the real reflect package (a *ValueError), i.e. a
// program-level panic, not an engine failure.
func callReflectExt(fr *frame, name string, ext externalFn, args []value) (res value) {
	defer func() {
		if r := recover(); r != nil {
			if _, ok := r.(runtime.Error); ok {
				// (a *reflect.ValueError in the real package: an error, not a runtime.Error)
				panic(targetPanic{iface{types.Typ[types.String], "reflect: call of " + name + " on a Value of the wrong kind"}})
			}
			panic(r)
		}
	}()
	return ext(fr, args)
}

// isEngineAbort reports whether a recovered panic value belongs to the
// engine (and must never be visible to the interpreted program).
func isEngineAbort(r interface{}) bool {
	switch r.(type) {
	case abortPath, engineBug:
		return true
	case runtime.Error:
		return true
	}
	return false
}

// runFrame executes SSA instructions starting at fr.block and
// continuing until a return, a panic, or a recovered panic.
func runFrame(fr *frame) {
	defer func() {
		if fr.block == nil {
			return // normal return
		}
		r := recover()
		if isEngineAbort(r) {
			if re, ok := r.(runtime.Error); ok {
				// A Go run-time error inside the engine: never a program
				// behaviour.
				buf := make([]byte, 1<<14)
				n := runtime.Stack(buf, false)
				panic(engineBug{fmt.Sprintf("engine run-time error in %s: %v\n%s", fr.fn, re, buf[:n])})
			}
			panic(r)
		}
		fr.panicking = true
		fr.panic = normalizePanic(r)
		fr.runDefers()
		fr.block = fr.fn.Recover
	}()

	for {
		nonPhis := executePhis(fr)
		for _, instr := range nonPhis {
			if visitInstr(fr, instr) == kReturn {
				return
			}
			// Inv: kNext (continue) or kJump (last instr)
		}
	}
}

// executePhis executes the phi-nodes at the start of the current
// block and returns the non-phi instructions.
func executePhis(fr *frame) []ssa.Instruction {
	firstNonPhi := -1
	for i, instr := range fr.block.Instrs {
		if _, ok := instr.(*ssa.Phi); !ok {
			firstNonPhi = i
			break
		}
	}
	// Inv: 0 <= firstNonPhi; every block contains a non-phi.

	nonPhis := fr.block.Instrs[firstNonPhi:]
	if firstNonPhi > 0 {
		phis := fr.block.Instrs[:firstNonPhi]
		predIndex := slices.Index(fr.block.Preds, fr.prevBlock)
		fr.phitemps = fr.phitemps[:0]
		for _, phi := range phis {
			phi := phi.(*ssa.Phi)
			fr.phitemps = append(fr.phitemps, fr.get(phi.Edges[predIndex]))
		}
		for i, phi := range phis {
			fr.env[phi.(*ssa.Phi)] = fr.phitemps[i]
		}
	}
	return nonPhis
}

// normalizePanic maps the interpreter's string panics that stand for Go
// run-time errors of the program to targetRuntimeError; any other string is
// an engine bug.
func normalizePanic(r interface{}) interface{} {
	s, ok := r.(string)
	if !ok {
		return r
	}
	for _, pre := range []string{"interface conversion", "method invoked on nil interface", "value method",
		"assignment to entry in nil map", "call of nil function", "array length is greater", "comparing uncomparable"} {
		if strings.HasPrefix(s, pre) {
			return targetRuntimeError{s}
		}
	}
	panic(engineBug{"interpreter panic: " + s})
}

// targetRuntimeError is a Go run-time panic of the interpreted program
// (index out of range, nil dereference, division by zero, ...).
type targetRuntimeError struct{ msg string }

func (e targetRuntimeError) Error() string { return "runtime error: " + e.msg }

// doRecover implements the recover() built-in.
func doRecover(caller *frame) value {
	// recover() must be exactly one level beneath the deferred
	// function (two levels beneath the panicking function) to
	// have any effect.
	if caller != nil && !caller.panicking &&
		caller.caller != nil && caller.caller.panicking {
		caller.caller.panicking = false
		p := caller.caller.panic
		caller.caller.panic = nil

		switch p := p.(type) {
		case targetPanic:
			// The target program explicitly called panic().
			return p.v
		case targetRuntimeError:
			return iface{caller.i.runtimeErrorString, p.Error()}
		default:
			panic(engineBug{fmt.Sprintf("unexpected panic type %T in target call to recover()", p)})
		}
	}
	return iface{}
}

// Loaded is a loaded and built SSA program plus the once-per-program state.
type Loaded struct {
	Prog           *ssa.Program
	Main           *ssa.Package // the harness package
	RepoPrefix     string       // import path prefix of the code under test
	reflectPackage *ssa.Package
	errorMethods   methodSet
	rtypeMethods   methodSet
	runtimeErrStr  types.Type
	sizes          types.Sizes
}

var initAllow = map[string]bool{
	"unicode": true, "unicode/utf8": true, "unicode/utf16": true, "strconv": true, "strings": true, "bytes": true,
	"sort": true, "slices": true, "math": true, "math/bits": true, "encoding/binary": true,
	"hash/fnv": true, "hash": true, "regexp": true, "regexp/syntax": true, "cmp": true,
	"context": true, "io": true, "errors": false, "flag": false,
}

func (ld *Loaded) isRepo(path string) bool {
	return strings.HasPrefix(path, ld.RepoPrefix)
}

func (ld *Loaded) initAllowed(path string) bool {
	return initAllow[path] || ld.isRepo(path)
}

// PrepareLoaded performs the once-per-program set-up.
func PrepareLoaded(prog *ssa.Program, main *ssa.Package, repoPrefix string) *Loaded {
	ld := &Loaded{Prog: prog, Main: main, RepoPrefix: repoPrefix}
	runtimePkg := prog.ImportedPackage("runtime")
	if runtimePkg == nil {
		panic("ssa.Program doesn't include runtime package")
	}
	ld.runtimeErrStr = runtimePkg.Type("errorString").Object().Type()
	ld.sizes = &types.StdSizes{WordSize: 8, MaxAlign: 8}
	tmp := &interpreter{prog: prog}
	initReflect(tmp)
	ld.reflectPackage, ld.errorMethods, ld.rtypeMethods = tmp.reflectPackage, tmp.errorMethods, tmp.rtypeMethods
	return ld
}

// repoFunctions enumerates the functions, methods and closures of the code
// under test.
func (ld *Loaded) repoFunctions() map[*ssa.Function]bool {
	out := map[*ssa.Function]bool{}
	var add func(f *ssa.Function)
	add = func(f *ssa.Function) {
		if f == nil || out[f] {
			return
		}
		out[f] = true
		for _, a := range f.AnonFuncs {
			add(a)
		}
	}
	for _, pkg := range ld.Prog.AllPackages() {
		if pkg.Pkg == nil || !ld.isRepo(pkg.Pkg.Path()) {
			continue
		}
		for _, m := range pkg.Members {
			switch x := m.(type) {
			case *ssa.Function:
				add(x)
			case *ssa.Type:
				for _, t := range []types.Type{x.Type(), types.NewPointer(x.Type())} {
					ms := ld.Prog.MethodSets.MethodSet(t)
					for k := 0; k < ms.Len(); k++ {
						if fn := ld.Prog.MethodValue(ms.At(k)); fn != nil && fn.Pkg == pkg {
							add(fn)
						}
					}
				}
			}
		}
	}
	return out
}

// ForbiddenSites lists the call sites in the code under test (harness and
// command-line driver excluded) whose static callee is a file, network or
// process primitive without a model (C10's completeness guard).
func (ld *Loaded) ForbiddenSites() []string {
	var out []string
	for fn := range ld.repoFunctions() {
		if fn == nil || fn.Pkg == nil || fn.Pkg.Pkg == nil || !ld.isRepo(fn.Pkg.Pkg.Path()) {
			continue
		}
		path := fn.Pkg.Pkg.Path()
		if strings.Contains(path, "/cmd/") || strings.HasSuffix(path, "/zzsv") || strings.Contains(path, "_examples") {
			continue
		}
		if pos := ld.Prog.Fset.Position(fn.Pos()); strings.Contains(filepath.Base(pos.Filename), "zz_") {
			continue
		}
		for _, b := range fn.Blocks {
			for _, in := range b.Instrs {
				// any use of a standard stream other than standard output
				for _, op := range in.Operands(nil) {
					if op == nil || *op == nil {
						continue
					}
					if g, ok := (*op).(*ssa.Global); ok && g.Pkg != nil && g.Pkg.Pkg.Path() == "os" && (g.Name() == "Stderr" || g.Name() == "Stdin") {
						out = append(out, "use of os."+g.Name()+" called from "+fn.String()+" at "+ld.Prog.Fset.Position(in.Pos()).String())
					}
				}
				var cc *ssa.CallCommon
				switch x := in.(type) {
				case *ssa.Call:
					cc = &x.Call
				case *ssa.Go:
					cc = &x.Call
				case *ssa.Defer:
					cc = &x.Call
				}
				if cc == nil {
					continue
				}
				if b, ok := cc.Value.(*ssa.Builtin); ok && (b.Name() == "print" || b.Name() == "println") {
					out = append(out, "builtin "+b.Name()+" called from "+fn.String()+" at "+ld.Prog.Fset.Position(in.Pos()).String())
					continue
				}
				callee := cc.StaticCallee()
				if callee == nil || callee.Pkg == nil || callee.Pkg.Pkg == nil {
					continue
				}
				if forbiddenPkg(callee.Pkg.Pkg.Path()) == "" || callee.Name() == "init" {
					continue
				}
				if externals[callee.String()] != nil && !driverOnly[callee.String()] {
					continue // has a model (os.Getenv)
				}
				out = append(out, callee.String()+" called from "+fn.String()+" at "+ld.Prog.Fset.Position(in.Pos()).String())
			}
		}
	}
	sort.Strings(out)
	return out
}

// newInterpreter creates a worker's interpreter and runs the standard
// library package initialisers once.
func newInterpreter(ld *Loaded, w *Worker) *interpreter {
	i := &interpreter{
		prog:               ld.Prog,
		globals:            make(map[*ssa.Global]*value),
		sizes:              ld.sizes,
		ld:                 ld,
		w:                  w,
		reflectPackage:     ld.reflectPackage,
		errorMethods:       ld.errorMethods,
		rtypeMethods:       ld.rtypeMethods,
		runtimeErrorString: ld.runtimeErrStr,
		onceDone:           map[*value]bool{},
		syncMaps:           map[*value]*omap{},
		closedGlobal:       map[chan value]bool{},
		zeroBase:           map[string]*value{},
		stdStreams:         map[string]*value{},
	}
	for _, pkg := range i.prog.AllPackages() {
		for _, m := range pkg.Members {
			if v, ok := m.(*ssa.Global); ok {
				cell := zero(mustDeref(v.Type()))
				i.globals[v] = &cell
				// os.init is not run: the three standard streams are distinct
				// placeholder files (the fmt model tells them apart)
				if pkg.Pkg.Path() == "os" && (v.Name() == "Stdin" || v.Name() == "Stdout" || v.Name() == "Stderr") {
					f := zero(mustDeref(mustDeref(v.Type())))
					cell = &f
					i.stdStreams[v.Name()] = &f
				}
			}
		}
	}
	// Run every allowed non-repo init once, under a throw-away path.
	p := w.newPath(nil, "init")
	i.path = p
	defer func() {
		p.sess.end()
		i.path = nil
	}()
	for _, pkg := range i.prog.AllPackages() {
		if ld.isRepo(pkg.Pkg.Path()) || !initAllow[pkg.Pkg.Path()] {
			continue
		}
		if fn := pkg.Func("init"); fn != nil {
			call(i, nil, token.NoPos, fn, nil)
		}
	}
	return i
}

// resetRepoGlobals zeroes the globals of the code under test (including the
// init guards) so that its package initialisers run again for the next path.
func (i *interpreter) resetRepoGlobals() {
	// sync.Once values of the code under test start afresh as well (those
	// of the standard library merely rebuild their tables)
	i.onceDone = map[*value]bool{}
	i.syncMaps = map[*value]*omap{}
	for _, pkg := range i.prog.AllPackages() {
		if !i.ld.isRepo(pkg.Pkg.Path()) {
			continue
		}
		for _, m := range pkg.Members {
			if v, ok := m.(*ssa.Global); ok {
				*i.globals[v] = zero(mustDeref(v.Type()))
			}
		}
	}
}

var _ = log.Fatal
var _ = os.Stderr
