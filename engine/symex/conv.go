// Conversions involving symbolic values and symbolic strings.

package symex

import (
	"fmt"
	"go/token"
	"go/types"

	"golang.org/x/tools/go/ssa"
)

func mustDeref(t types.Type) types.Type {
	if p, ok := t.Underlying().(*types.Pointer); ok {
		return p.Elem()
	}
	panic(engineBug{"mustDeref: not a pointer: " + t.String()})
}

func hasSymElem(xs []value) bool {
	for _, x := range xs {
		if isSym(x) {
			return true
		}
	}
	return false
}

// symConv handles the conversions that the concrete conv cannot: it returns
// ok=false when x and the conversion are purely concrete.
func symConv(fr *frame, utDst, utSrc types.Type, x value) (value, bool) {
	p := fr.i.path
	switch src := utSrc.(type) {
	case *types.Slice:
		xs, _ := x.([]value)
		eb, ok := src.Elem().Underlying().(*types.Basic)
		if !ok {
			return nil, false
		}
		if db, ok := utDst.(*types.Basic); ok && db.Kind() == types.String {
			switch eb.Kind() {
			case types.Byte:
				if hasSymElem(xs) {
					return mkStr(xs), true
				}
			case types.Rune:
				if hasSymElem(xs) {
					return fr.encodeRunes(xs), true
				}
			}
		}
		return nil, false
	case *types.Basic:
		// string -> []byte / []rune / string
		if ss, ok := x.(symString); ok {
			switch dst := utDst.(type) {
			case *types.Slice:
				switch dst.Elem().Underlying().(*types.Basic).Kind() {
				case types.Byte:
					return append([]value{}, strBytes(ss)...), true
				case types.Rune:
					return fr.decodeRunes(ss), true
				}
			case *types.Basic:
				if dst.Kind() == types.String {
					return ss, true
				}
			}
			panic(engineBug{fmt.Sprintf("symConv: string -> %s", utDst)})
		}
		if !isSym(x) {
			return nil, false
		}
		dst, ok := utDst.(*types.Basic)
		if !ok {
			panic(engineBug{fmt.Sprintf("symConv: %T -> %s", x, utDst)})
		}
		// integer -> string
		if dst.Kind() == types.String {
			if si, ok := x.(symInt); ok {
				r := p.symConvNumeric(si, types.Int32)
				if kindWidth(si.k) > 32 {
					// values outside int32 become U+FFFD; fork.
					w := kindWidth(si.k)
					var inr *Term
					if kindSigned(si.k) {
						inr = p.ts.And(p.ts.BvRel("bvsge", si.t, p.ts.BV(0, w)), p.ts.BvRel("bvsle", si.t, p.ts.BV(0x10FFFF, w)))
					} else {
						inr = p.ts.BvRel("bvule", si.t, p.ts.BV(0x10FFFF, w))
					}
					if !p.decide(inr) {
						return "�", true
					}
				}
				return fr.encodeRunes([]value{r}), true
			}
		}
		if dst.Info()&types.IsNumeric != 0 {
			return p.symConvNumeric(x, dst.Kind()), true
		}
		if dst.Kind() == types.Bool {
			return x, true
		}
		panic(engineBug{fmt.Sprintf("symConv: %T -> %s", x, utDst)})
	}
	return nil, false
}

// allocLen turns a make() size into a concrete number (forking over the
// feasible values up to the allocation bound).
func (p *Path) allocLen(v value, what string) int64 {
	if si, ok := v.(symInt); ok {
		w := si.t.sort.w
		bound := int64(p.w.ex.opt.AllocBound)
		if bound == 0 {
			bound = 64
		}
		var big *Term
		if kindSigned(si.k) {
			big = p.ts.BvRel("bvsgt", si.t, p.ts.BV(uint64(bound), w))
		} else {
			big = p.ts.BvRel("bvugt", si.t, p.ts.BV(uint64(bound), w))
		}
		if p.decide(big) {
			p.unsupported("%s: symbolic size above the allocation bound %d", what, bound)
		}
		return p.concreteInt(v, int(bound)+3, what)
	}
	return asInt64(v)
}

// chanRecv implements <-ch for the engine's channel model: channels are
// only used for context cancellation (Done channels) and are never sent to.
func chanRecv(fr *frame, instr *ssa.UnOp, x value) value {
	ch, _ := x.(chan value)
	ready := fr.i.path.chanReady(ch)
	if !ready {
		fr.i.path.unsupported("blocking receive on a channel that is never ready")
	}
	v := zero(instr.X.Type().Underlying().(*types.Chan).Elem())
	if instr.CommaOk {
		return tuple{v, false}
	}
	return v
}

// doSelect implements select for receive-only cases on engine channels.
func doSelect(fr *frame, instr *ssa.Select) value {
	p := fr.i.path
	chosen := -1
	for i, st := range instr.States {
		if st.Dir != types.RecvOnly {
			p.unsupported("select with send case")
		}
		ch, _ := fr.get(st.Chan).(chan value)
		if p.chanReady(ch) {
			chosen = i
			break
		}
	}
	if chosen < 0 && instr.Blocking {
		p.unsupported("blocking select with no ready channel")
	}
	r := tuple{chosen, false}
	for _, st := range instr.States {
		if st.Dir == types.RecvOnly {
			r = append(r, zero(st.Chan.Type().Underlying().(*types.Chan).Elem()))
		}
	}
	return r
}

var _ = token.NoPos
