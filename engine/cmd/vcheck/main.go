package main

import (
	"flag"
	"fmt"
	"os"
	"time"

	"verif/engine/symex"
)

func main() {
	repo := flag.String("repo", "/repo", "repository")
	hdir := flag.String("harness-dir", "/verif/harness", "harness overlay")
	h := flag.String("h", "ZZ_Smoke", "harness function")
	workers := flag.Int("j", 4, "workers")
	flag.Parse()
	t0 := time.Now()
	ld, err := symex.Load(symex.LoadConfig{RepoDir: *repo, HarnessDir: *hdir, Module: "github.com/skx/evalfilter/v2", Tags: "verif"})
	if err != nil {
		fmt.Fprintln(os.Stderr, err)
		os.Exit(3)
	}
	fmt.Println("load+build", time.Since(t0))
	t1 := time.Now()
	ex := symex.NewExplorer(symex.Options{Workers: *workers})
	res, bugs := ex.Run(ld, *h)
	fmt.Println("explore", time.Since(t1), "paths", len(res))
	for _, b := range bugs {
		fmt.Println("BUG", b)
	}
	for _, r := range res {
		fmt.Printf("path %v end=%s why=%q steps=%d q=%d sites=%v obs=%v model=%v\n", r.Decis, r.End, r.Why, r.Steps, r.Queries, r.Sites, r.ObsPred, r.Model)
		for _, c := range r.Cands {
			fmt.Printf("   CAND site=%s model=%v known=%q %s\n", c.Site, c.Model, c.Known, c.PanicMsg)
		}
		for _, s := range r.Incon {
			fmt.Println("   INCON", s)
		}
	}
	fmt.Printf("solver: %+v\n", symex.Stats)
}
