// vcheck: bounded symbolic checking of skx/evalfilter's real code.
//
//	vcheck check -prop C16 -tier quick     explore, replay, write evidence
//	vcheck replay -prop C16 -file f.json   re-run a recorded counterexample natively
//	vcheck run -h ZZ_Smoke                 explore one harness and dump paths (debugging)
package main

import (
	"bufio"
	"encoding/json"
	"flag"
	"fmt"
	"os"
	"os/exec"
	"path/filepath"
	"regexp"
	"runtime"
	"sort"
	"strconv"
	"strings"
	"time"

	"verif/engine/symex"
)

const module = "github.com/skx/evalfilter/v2"

var (
	repoDir    = "/repo"
	verifDir   = "/verif"
	harnessDir = "/verif/harness"
)

type knownFinding struct {
	Property string `json:"property"`
	Harness  string `json:"harness"`
	Site     string `json:"site"`
	Region   string `json:"region"`
	What     string `json:"what"`
}

type knownFile struct {
	Findings []knownFinding `json:"findings"`
	Fixed    []string       `json:"fixed"`
}

func loadKnown() knownFile {
	var kf knownFile
	b, err := os.ReadFile(filepath.Join(verifDir, "known_findings.json"))
	if err == nil {
		if err := json.Unmarshal(b, &kf); err != nil {
			fatal(3, "known_findings.json: %v", err)
		}
	}
	return kf
}

func fatal(code int, format string, a ...interface{}) {
	fmt.Fprintf(os.Stderr, "vcheck: "+format+"\n", a...)
	os.Exit(code)
}

type harnessRef struct {
	Pkg  string // relative package dir ("" = root)
	Name string
}

// findHarnesses scans the overlay sources for ZZ_<prop>_* functions.
func findHarnesses(prop string) []harnessRef {
	re := regexp.MustCompile(`(?m)^func (ZZ_` + regexp.QuoteMeta(prop) + `_\w+)\(sv \*zzsv\.T\)`)
	var out []harnessRef
	filepath.Walk(harnessDir, func(path string, info os.FileInfo, err error) error {
		if err != nil || info.IsDir() || !strings.HasSuffix(path, ".go") || strings.HasSuffix(path, "_test.go") {
			return nil
		}
		b, _ := os.ReadFile(path)
		rel, _ := filepath.Rel(harnessDir, filepath.Dir(path))
		if rel == "." {
			rel = ""
		}
		for _, m := range re.FindAllStringSubmatch(string(b), -1) {
			out = append(out, harnessRef{Pkg: rel, Name: m[1]})
		}
		return nil
	})
	sort.Slice(out, func(i, j int) bool {
		if out[i].Pkg != out[j].Pkg {
			return out[i].Pkg < out[j].Pkg
		}
		return out[i].Name < out[j].Name
	})
	return out
}

// ---- native twin

type nativeCase struct {
	Harness string            `json:"harness"`
	Model   map[string]string `json:"model"`
}

type nativeOutcome struct {
	Harness string   `json:"harness"`
	Obs     []string `json:"obs"`
	Fails   []string `json:"fails"`
	Panic   string   `json:"panic"`
	Assume  bool     `json:"assume_failed"`
}

type nativeRunner struct {
	scratch  string
	bins     map[string]string
	race     bool
	raceBins map[string]string
}

func goEnv() []string {
	return append(os.Environ(), "GOFLAGS=-mod=mod", "GOPROXY=off", "GOSUMDB=off", "GOTOOLCHAIN=local")
}

func newNativeRunner() *nativeRunner {
	d, err := os.MkdirTemp("/var/tmp", "verif.")
	if err != nil {
		fatal(3, "scratch: %v", err)
	}
	return &nativeRunner{scratch: d, bins: map[string]string{}}
}

func (n *nativeRunner) cleanup() { os.RemoveAll(n.scratch) }

func (n *nativeRunner) overlayFile() string {
	rep := map[string]string{}
	filepath.Walk(harnessDir, func(path string, info os.FileInfo, err error) error {
		if err != nil || info.IsDir() || !strings.HasSuffix(path, ".go") {
			return nil
		}
		rel, _ := filepath.Rel(harnessDir, path)
		rep[filepath.Join(repoDir, rel)] = path
		return nil
	})
	b, _ := json.Marshal(map[string]interface{}{"Replace": rep})
	f := filepath.Join(n.scratch, "overlay.json")
	os.WriteFile(f, b, 0644)
	return f
}

func (n *nativeRunner) bin(pkg string) (string, error) {
	if b, ok := n.bins[pkg]; ok {
		return b, nil
	}
	out := filepath.Join(n.scratch, "t_"+strings.ReplaceAll(pkg, "/", "_")+".test")
	if n.race {
		out = filepath.Join(n.scratch, "t_"+strings.ReplaceAll(pkg, "/", "_")+".race.test")
	}
	args := []string{"test", "-c", "-vet=off", "-tags", "verif", "-overlay", n.overlayFile(), "-o", out}
	if n.race {
		args = append(args, "-race")
	}
	args = append(args, "./"+pkg)
	cmd := exec.Command("go", args...)
	cmd.Dir = repoDir
	cmd.Env = append(goEnv(), "GOCACHE="+goCache())
	if b, err := cmd.CombinedOutput(); err != nil {
		return "", fmt.Errorf("building native twin for %q: %v\n%s", pkg, err, b)
	}
	n.bins[pkg] = out
	return out, nil
}

func goCache() string {
	if c := os.Getenv("GOCACHE"); c != "" {
		return c
	}
	h, _ := os.UserHomeDir()
	return filepath.Join(h, ".cache", "go-build")
}

func (n *nativeRunner) run(pkg string, cases []nativeCase, extraEnv ...string) ([]nativeOutcome, error) {
	if len(cases) == 0 {
		return nil, nil
	}
	bin, err := n.bin(pkg)
	if err != nil {
		return nil, err
	}
	cf := filepath.Join(n.scratch, "cases.jsonl")
	of := filepath.Join(n.scratch, "out.jsonl")
	f, _ := os.Create(cf)
	w := bufio.NewWriter(f)
	for _, c := range cases {
		b, _ := json.Marshal(c)
		w.Write(b)
		w.WriteByte('\n')
	}
	w.Flush()
	f.Close()
	os.Remove(of)
	cmd := exec.Command(bin, "-test.run", "^TestZZReplay$", "-test.timeout", "20m")
	cmd.Dir = filepath.Join(repoDir, pkg)
	cmd.Env = append(append(goEnv(), "VERIF_CASES="+cf, "VERIF_OUT="+of), extraEnv...)
	outb, rerr := cmd.CombinedOutput()
	var outs []nativeOutcome
	if fo, err := os.Open(of); err == nil {
		sc := bufio.NewScanner(fo)
		sc.Buffer(make([]byte, 1<<20), 1<<26)
		for sc.Scan() {
			var o nativeOutcome
			if json.Unmarshal(sc.Bytes(), &o) == nil {
				outs = append(outs, o)
			}
		}
		fo.Close()
	}
	if len(outs) < len(cases) {
		// the native process died (fatal error, os.Exit, deadlock ...): the
		// case after the last reported one is the culprit.
		return outs, fmt.Errorf("native twin stopped after %d of %d cases: %v\n%s", len(outs), len(cases), rerr, tail(string(outb), 2000))
	}
	return outs, nil
}

var straceRe = regexp.MustCompile(`^\d+\s+`)

// strace runs one native case under strace and returns the normalised
// file/network/process system calls it made.
func (n *nativeRunner) strace(pkg string, c nativeCase) ([]string, error) {
	bin, err := n.bin(pkg)
	if err != nil {
		return nil, err
	}
	cf := filepath.Join(n.scratch, "st_cases.jsonl")
	of := filepath.Join(n.scratch, "st_out.jsonl")
	sf := filepath.Join(n.scratch, "strace.txt")
	b, _ := json.Marshal(c)
	os.WriteFile(cf, append(b, '\n'), 0644)
	os.Remove(sf)
	cmd := exec.Command("strace", "-f", "-qq", "-e",
		"trace=openat,open,creat,unlink,unlinkat,rename,renameat,renameat2,mkdir,mkdirat,rmdir,socket,connect,bind,execve,execveat,truncate,chmod,fchmodat,symlink,symlinkat,link,linkat,write",
		"-o", sf, bin, "-test.run", "^TestZZReplay$")
	cmd.Dir = filepath.Join(repoDir, pkg)
	cmd.Env = append(goEnv(), "VERIF_CASES="+cf, "VERIF_OUT="+of)
	if out, err := cmd.CombinedOutput(); err != nil {
		_ = out // the harness itself may fail; the trace is what matters
	}
	raw, err := os.ReadFile(sf)
	if err != nil {
		return nil, err
	}
	var calls []string
	for _, l := range strings.Split(string(raw), "\n") {
		l = straceRe.ReplaceAllString(l, "")
		if l == "" || strings.Contains(l, "ENOENT") && strings.Contains(l, "/etc/ld.so") {
			continue
		}
		// of the writes only those to standard error matter (standard output
		// is allowed; other descriptors are the test binary's own files)
		if strings.HasPrefix(l, "write(") && !strings.HasPrefix(l, "write(2,") {
			continue
		}
		// drop the result value and addresses
		if i := strings.LastIndex(l, " = "); i > 0 {
			l = l[:i]
		}
		l = regexp.MustCompile(`0x[0-9a-f]+`).ReplaceAllString(l, "PTR")
		calls = append(calls, l)
	}
	return calls, nil
}

// raceDetected runs one native case with real goroutines in a binary built
// with -race and reports whether the Go race detector fired.
func (n *nativeRunner) raceDetected(pkg string, c nativeCase) (bool, error) {
	rn := &nativeRunner{scratch: n.scratch, bins: n.raceBins, race: true}
	if rn.bins == nil {
		rn.bins = map[string]string{}
		n.raceBins = rn.bins
	}
	bin, err := rn.bin(pkg + "")
	if err != nil {
		return false, err
	}
	cf := filepath.Join(n.scratch, "race_cases.jsonl")
	of := filepath.Join(n.scratch, "race_out.jsonl")
	b, _ := json.Marshal(c)
	os.WriteFile(cf, append(b, '\n'), 0644)
	for try := 0; try < 5; try++ {
		cmd := exec.Command(bin, "-test.run", "^TestZZReplay$", "-test.count", "4")
		cmd.Dir = filepath.Join(repoDir, pkg)
		cmd.Env = append(goEnv(), "VERIF_CASES="+cf, "VERIF_OUT="+of, "GORACE=halt_on_error=0")
		out, _ := cmd.CombinedOutput()
		if strings.Contains(string(out), "DATA RACE") || strings.Contains(string(out), "concurrent map") {
			return true, nil
		}
	}
	return false, nil
}

// confinedDiff lists system calls of the case that the baseline run did not
// make and that are not among the effects C10 allows (standard output,
// environment, clock, the time-zone database).
func confinedDiff(cas, base []string) []string {
	seen := map[string]bool{}
	for _, b := range base {
		seen[b] = true
	}
	var out []string
	for _, c := range cas {
		if seen[c] {
			continue
		}
		if strings.Contains(c, "zoneinfo") || strings.Contains(c, "/etc/localtime") || strings.Contains(c, "st_cases.jsonl") || strings.Contains(c, "st_out.jsonl") ||
			strings.HasPrefix(c, "openat(AT_FDCWD, \"/proc/") || strings.HasPrefix(c, "openat(AT_FDCWD, \"/sys/") {
			continue
		}
		out = append(out, c)
	}
	return out
}

func tail(s string, n int) string {
	if len(s) > n {
		return s[len(s)-n:]
	}
	return s
}

// ---- evidence

type sample struct {
	Harness string            `json:"harness"`
	Notes   map[string]string `json:"notes,omitempty"`
	Inputs  map[string]string `json:"inputs"`
	Obs     []string          `json:"observed"`
	End     string            `json:"path_end"`
}

type harnessStats struct {
	Name         string         `json:"harness"`
	Paths        int            `json:"paths"`
	Feasible     int            `json:"feasible_paths"`
	Unsupported  int            `json:"unsupported_paths"`
	Truncated    int            `json:"truncated_paths"`
	Sites        map[string]int `json:"assert_sites_paths"`
	Steps        int64          `json:"ssa_instructions"`
	Validated    int            `json:"native_validated"`
	WallS        float64        `json:"wall_s"`
	UnsupportedW []string       `json:"unsupported_reasons,omitempty"`
}

type checkResult struct {
	violations   []string // VIOLATION lines
	known        []string
	inconclusive []string
	internal     []string
}

func cmdCheck(args []string) {
	fs := flag.NewFlagSet("check", flag.ExitOnError)
	prop := fs.String("prop", "", "property id")
	tier := fs.String("tier", "quick", "quick|thorough")
	workers := fs.Int("j", 0, "workers (default: all cores)")
	only := fs.String("only", "", "restrict to harnesses matching this regexp")
	canary := fs.Bool("canary", false, "vacuity twin: every assertion is replaced by false")
	fs.Parse(args)
	if *prop == "" {
		fatal(3, "-prop required")
	}
	if t := os.Getenv("VERIF_TIER"); t != "" && (t == "quick" || t == "thorough") && !flagSet(fs, "tier") {
		*tier = t
	}
	seed, _ := strconv.ParseInt(os.Getenv("VERIF_SEED"), 10, 64)
	if *workers <= 0 {
		*workers = runtime.NumCPU()
	}
	t0 := time.Now()
	hs := findHarnesses(*prop)
	if *only != "" {
		re := regexp.MustCompile(*only)
		var f []harnessRef
		for _, h := range hs {
			if re.MatchString(h.Name) {
				f = append(f, h)
			}
		}
		hs = f
	}
	if len(hs) == 0 {
		fatal(3, "no harness for %s", *prop)
	}
	kf := loadKnown()
	knownRegions := map[string][]string{}
	knownWhat := map[string]string{}
	for _, k := range kf.Findings {
		if k.Property == *prop {
			knownRegions[k.Site] = append(knownRegions[k.Site], k.Region)
			knownWhat[k.Site+"|"+k.Region] = k.What
		}
	}

	nat := newNativeRunner()
	defer nat.cleanup()
	var cr checkResult
	var hstats []harnessStats
	var samples []sample
	funcsRepo := map[string]bool{}
	funcsStd := map[string]bool{}
	totalPaths, totalFeasible, totalValidated, nontrivial := 0, 0, 0, 0
	params := map[string]int{}
	byPkg := map[string][]harnessRef{}
	var pkgs []string
	for _, h := range hs {
		if _, ok := byPkg[h.Pkg]; !ok {
			pkgs = append(pkgs, h.Pkg)
		}
		byPkg[h.Pkg] = append(byPkg[h.Pkg], h)
	}
	replayN := 0
	var staticForbidden []string
	reachedForbidden := map[string]bool{}
	os.MkdirAll(filepath.Join(verifDir, "replay"), 0755)
	for _, pkg := range pkgs {
		ld, err := symex.Load(symex.LoadConfig{RepoDir: repoDir, HarnessDir: harnessDir, Module: module, Pkg: pkg, Tags: "verif"})
		if err != nil {
			fatal(3, "loading %s/%s: %v", repoDir, pkg, err)
		}
		if *prop == "C10" {
			staticForbidden = append(staticForbidden, ld.ForbiddenSites()...)
		}
		for _, h := range byPkg[pkg] {
			th := time.Now()
			opt := symex.Options{Workers: *workers, KnownRegions: knownRegions, Seed: seed, Tier: *tier, Canary: *canary}
			ex := symex.NewExplorer(opt)
			res, bugs := ex.Run(ld, h.Name)
			for _, b := range bugs {
				cr.internal = append(cr.internal, h.Name+": "+b)
			}
			st := harnessStats{Name: h.Name, Sites: map[string]int{}}
			var okPaths []*symex.PathResult
			var cands []symex.Candidate
			unsW := map[string]int{}
			var unsupModels []map[string]string
			for _, r := range res {
				st.Paths++
				st.Steps += r.Steps
				switch r.End {
				case "ok", "panic":
					st.Feasible++
					okPaths = append(okPaths, r)
					if len(r.Sites) > 0 {
						nontrivial++
					}
				case "unsupported":
					st.Unsupported++
					unsW[r.Why]++
					if r.Model != nil && len(unsupModels) < 4000 {
						unsupModels = append(unsupModels, r.Model)
					}
				case "budget":
					st.Truncated++
				}
				for s := range r.Sites {
					st.Sites[s]++
				}
				for k, v := range r.Params {
					params[h.Name+"."+k] = v
				}
				cands = append(cands, r.Cands...)
				for _, s := range r.Incon {
					cr.inconclusive = append(cr.inconclusive, h.Name+": "+s)
				}
				for f := range r.Funcs {
					if strings.Contains(f, module) {
						funcsRepo[f] = true
					} else {
						funcsStd[f] = true
					}
				}
				for _, f := range r.Forbidden {
					reachedForbidden[f] = true
				}
			}
			for w, n := range unsW {
				st.UnsupportedW = append(st.UnsupportedW, fmt.Sprintf("%dx %s", n, w))
				cr.inconclusive = append(cr.inconclusive, fmt.Sprintf("%s: %d path(s) outside the encoding: %s", h.Name, n, w))
			}
			sort.Strings(st.UnsupportedW)
			if st.Truncated > 0 {
				cr.inconclusive = append(cr.inconclusive, fmt.Sprintf("%s: %d path(s) exhausted the instruction budget (unwinding bound)", h.Name, st.Truncated))
			}
			if len(st.Sites) == 0 && len(bugs) == 0 {
				cr.internal = append(cr.internal, h.Name+": vacuous: no assertion site reached on any feasible path")
			}
			// --- paths that left the encoding: the engine cannot say what the
			// code does there, but the real build can be asked whether it
			// survives (a process that dies is a violation whatever the
			// property; observations are not compared)
			if len(unsupModels) > 0 && !*canary {
				var ucases []nativeCase
				// (up to 48 of them, spread evenly over the exploration order)
				stepU := 1
				if len(unsupModels) > 48 {
					stepU = len(unsupModels) / 48
				}
				for k := 0; k < len(unsupModels) && len(ucases) < 48; k += stepU {
					ucases = append(ucases, nativeCase{Harness: h.Name, Model: unsupModels[k]})
				}
				uouts, uerr := nat.run(pkg, ucases)
				if os.Getenv("VCHECK_DEBUG") != "" {
					fmt.Fprintf(os.Stderr, "unsupported replay: %d cases, %d outcomes, err=%v\n", len(ucases), len(uouts), uerr)
				}
				if uerr != nil && len(uouts) < len(ucases) {
					// (outcomes are flushed at the end of a batch, so a process
					// that dies loses them: find the culprit case by case)
					for _, dead := range ucases {
						one, err1 := nat.run(pkg, []nativeCase{dead})
						if err1 == nil || len(one) > 0 {
							continue
						}
						replayN++
						rf := filepath.Join(verifDir, "replay", fmt.Sprintf("%s-%s-%d.json", *prop, h.Name, replayN))
						b, _ := json.MarshalIndent(map[string]interface{}{
							"property": *prop, "harness": h.Name, "package": pkg, "site": "native.crash", "inputs": dead.Model,
							"native_panic": "the native twin's process died on inputs that lead outside the engine's encoding: " + tail(err1.Error(), 600),
						}, "", " ")
						os.WriteFile(rf, b, 0644)
						cr.violations = append(cr.violations, fmt.Sprintf("VIOLATION property=%s replay=%s", *prop, rf))
						fmt.Printf("  counterexample: harness=%s site=native.crash (the process died; path outside the encoding) inputs=%v\n", h.Name, dead.Model)
						break
					}
				}
			}
			// --- native validation of path models (translator validation)
			maxVal := 48
			if *tier == "thorough" {
				maxVal = 1000
			}
			var sel []*symex.PathResult
			for _, r := range okPaths {
				// (a model that interprets math.Pow or the calendar functions
				// freely predicts observations the real functions need not
				// give: such paths are not used for translator validation)
				if r.Model != nil && len(r.Cands) == 0 && !r.UF {
					sel = append(sel, r)
				}
			}
			if len(sel) > maxVal {
				step := float64(len(sel)) / float64(maxVal)
				var s2 []*symex.PathResult
				for k := 0; k < maxVal; k++ {
					s2 = append(s2, sel[int(float64(k)*step)])
				}
				sel = s2
			}
			var cases []nativeCase
			for _, r := range sel {
				cases = append(cases, nativeCase{Harness: h.Name, Model: r.Model})
			}
			outs, err := nat.run(pkg, cases, canaryEnv(*canary)...)
			if err != nil && len(outs) < len(cases) && !*canary {
				// The real build died (fatal error, stack overflow, os.Exit)
				// on a path model for which the engine predicted an orderly
				// end. Whatever the engine thought, the native twin is the
				// real code: a process that dies under a harness is a
				// violation, confirmed once more by a run on its own.
				// (outcomes are flushed at the end of a batch: find the culprit
				// case by case)
				var dead nativeCase
				var one []nativeOutcome
				var err1 error
				for _, c := range cases {
					one, err1 = nat.run(pkg, []nativeCase{c})
					if err1 != nil && len(one) == 0 {
						dead = c
						break
					}
				}
				if err1 != nil && len(one) == 0 {
					replayN++
					rf := filepath.Join(verifDir, "replay", fmt.Sprintf("%s-%s-%d.json", *prop, h.Name, replayN))
					b, _ := json.MarshalIndent(map[string]interface{}{
						"property": *prop, "harness": h.Name, "package": pkg, "site": "native.crash", "inputs": dead.Model,
						"native_panic": "the native twin's process died: " + tail(err1.Error(), 600),
					}, "", " ")
					os.WriteFile(rf, b, 0644)
					cr.violations = append(cr.violations, fmt.Sprintf("VIOLATION property=%s replay=%s", *prop, rf))
					fmt.Printf("  counterexample: harness=%s site=native.crash (the process died) inputs=%v\n", h.Name, dead.Model)
				} else {
					cr.internal = append(cr.internal, h.Name+": native validation: "+err.Error())
				}
				outs = nil
				sel = nil
			} else if err != nil {
				cr.internal = append(cr.internal, h.Name+": native validation: "+err.Error())
			}
			for k, o := range outs {
				r := sel[k]
				if o.Assume {
					cr.internal = append(cr.internal, fmt.Sprintf("%s: native twin rejected a path model (assume failed) %v", h.Name, r.Model))
					continue
				}
				// C19/C11 twins are nondeterministic natively (map order, the
				// scheduler): a native failure on a path the engine explored
				// under one particular order is no engine/native mismatch
				// (the same failure is reported through its own path).
				nondetTwin := *prop == "C19" || *prop == "C11"
				if nondetTwin && len(o.Fails) > 0 {
					continue
				}
				if strings.Join(o.Obs, "\n") != strings.Join(r.ObsPred, "\n") || (len(o.Fails) > 0 && !*canary) {
					cr.internal = append(cr.internal, fmt.Sprintf("%s: engine/native mismatch on path %v\n  inputs   %v\n  predicted %v\n  native    %v fails=%v panic=%q", h.Name, r.Decis, r.Model, r.ObsPred, o.Obs, o.Fails, o.Panic))
					continue
				}
				st.Validated++
			}
			// samples
			for k, r := range sel {
				if k >= 3 {
					break
				}
				samples = append(samples, sample{Harness: h.Name, Notes: r.Notes, Inputs: r.Model, Obs: r.ObsPred, End: r.End})
			}
			// --- candidates: replay natively, classify
			cands = dedupCands(cands)
			var ccases []nativeCase
			for _, c := range cands {
				ccases = append(ccases, nativeCase{Harness: h.Name, Model: c.Model})
			}
			couts, err := nat.run(pkg, ccases, canaryEnv(*canary)...)
			if err != nil && len(couts) < len(ccases) {
				// the native process died on case len(couts): that is a crash
				// of the host, i.e. a confirmed failure of that candidate.
				dead := cands[len(couts)]
				couts = append(couts, nativeOutcome{Harness: h.Name, Fails: []string{dead.Site, "harness.panic"}, Panic: "native process died: " + err.Error()})
				for len(couts) < len(ccases) {
					one, err2 := nat.run(pkg, ccases[len(couts):len(couts)+1])
					if err2 != nil || len(one) == 0 {
						one = []nativeOutcome{{Harness: h.Name, Fails: []string{cands[len(couts)].Site, "harness.panic"}, Panic: "native process died"}}
					}
					couts = append(couts, one[0])
				}
			}
			// C10: a path that reached a file/network/process primitive is
			// confirmed by running the native twin under strace and diffing
			// its system calls against a benign baseline case.
			var baseCalls []string
			for k, c := range cands {
				if c.Site != "C10.forbidden" || k >= len(couts) {
					continue
				}
				if baseCalls == nil {
					baseCalls, _ = nat.strace(pkg, nativeCase{Harness: h.Name, Model: map[string]string{}})
				}
				calls, serr := nat.strace(pkg, nativeCase{Harness: h.Name, Model: c.Model})
				if serr != nil {
					cr.inconclusive = append(cr.inconclusive, fmt.Sprintf("%s: %s: cannot confirm with strace: %v", h.Name, c.PanicMsg, serr))
					continue
				}
				if extra := confinedDiff(calls, baseCalls); len(extra) > 0 {
					couts[k].Fails = append(couts[k].Fails, "C10.forbidden")
					couts[k].Obs = append(couts[k].Obs, "strace: "+strings.Join(extra, " ; "))
				}
			}
			// C11: a predicted race is confirmed by real goroutines under
			// the Go race detector.
			for k, c := range cands {
				if c.Site != "C11.race" || k >= len(couts) {
					continue
				}
				hit, rerr := nat.raceDetected(pkg, nativeCase{Harness: h.Name, Model: c.Model})
				if rerr != nil {
					cr.inconclusive = append(cr.inconclusive, fmt.Sprintf("%s: predicted race cannot be replayed under the race detector: %v", h.Name, rerr))
					continue
				}
				if hit {
					couts[k].Fails = append(couts[k].Fails, "C11.race")
					couts[k].Obs = append(couts[k].Obs, "go race detector: DATA RACE; predicted: "+c.PanicMsg)
				}
			}
			seenKnown := map[string]bool{}
			// group candidates of one class (site, region, shape): with
			// uninterpreted functions in play any reproducing member confirms
			// the class; a class without a reproducing member is inconclusive.
			classOf := func(c symex.Candidate) string { return c.Site + "|" + c.Known + "|" + c.Choices }
			classConfirmed := map[string]bool{}
			classUF := map[string]bool{}
			confirmedOf := make([]bool, len(cands))
			for k, c := range cands {
				if k >= len(couts) {
					break
				}
				for _, f := range couts[k].Fails {
					if f == c.Site {
						confirmedOf[k] = true
						classConfirmed[classOf(c)] = true
					}
				}
				if c.UF {
					classUF[classOf(c)] = true
				}
			}
			reported := map[string]bool{}
			for k, c := range cands {
				if k >= len(couts) {
					break
				}
				o := couts[k]
				cls := classOf(c)
				if !confirmedOf[k] {
					if classConfirmed[cls] {
						continue
					}
					if classUF[cls] {
						if !reported[cls] {
							reported[cls] = true
							cr.inconclusive = append(cr.inconclusive, fmt.Sprintf("%s: %s fails only under a free interpretation of math.Pow / calendar functions; no real-world witness among the models tried (inputs e.g. %v, notes %v)", h.Name, c.Site, c.Model, c.Note))
						}
						continue
					}
					cr.internal = append(cr.internal, fmt.Sprintf("%s: counterexample for %s does not reproduce natively (engine or stub error): inputs %v notes %v native obs=%v fails=%v", h.Name, c.Site, c.Model, c.Note, o.Obs, o.Fails))
					continue
				}
				if c.UF && reported[cls] {
					continue
				}
				reported[cls] = true
				if c.Known != "" {
					key := c.Site + "|" + c.Known
					if !seenKnown[key] {
						seenKnown[key] = true
						cr.known = append(cr.known, fmt.Sprintf("KNOWN-FINDING: property=%s %s [harness %s, site %s, region %s; e.g. inputs %v]", *prop, knownWhat[key], h.Name, c.Site, c.Known, c.Model))
					}
					continue
				}
				replayN++
				rf := filepath.Join(verifDir, "replay", fmt.Sprintf("%s-%s-%d.json", *prop, h.Name, replayN))
				b, _ := json.MarshalIndent(map[string]interface{}{
					"property": *prop, "harness": h.Name, "package": pkg, "site": c.Site, "inputs": c.Model,
					"notes": c.Note, "native_observations": o.Obs, "native_failed_assertions": o.Fails, "native_panic": o.Panic,
					"engine_panic": c.PanicMsg,
				}, "", " ")
				os.WriteFile(rf, b, 0644)
				if replayN <= 20 {
					cr.violations = append(cr.violations, fmt.Sprintf("VIOLATION property=%s replay=%s", *prop, rf))
					fmt.Printf("  counterexample: harness=%s site=%s inputs=%v notes=%v\n", h.Name, c.Site, c.Model, c.Note)
				}
			}
			st.WallS = time.Since(th).Seconds()
			hstats = append(hstats, st)
			totalPaths += st.Paths
			totalFeasible += st.Feasible
			totalValidated += st.Validated
			fmt.Printf("harness %-28s paths=%d feasible=%d unsupported=%d truncated=%d sites=%d validated=%d cands=%d %.1fs\n",
				h.Name, st.Paths, st.Feasible, st.Unsupported, st.Truncated, len(st.Sites), st.Validated, len(cands), st.WallS)
		}
	}

	// C10 completeness guard: every call site of a file/network/process
	// primitive in the library must have been reached by some path (and then
	// shows up as a counterexample) - otherwise the bound is too small to say.
	for _, site := range uniq(staticForbidden) {
		callee := strings.SplitN(site, " called from ", 2)[0]
		if !reachedForbidden[callee] {
			cr.inconclusive = append(cr.inconclusive, "forbidden call site not reached within bounds: "+site)
		}
	}
	// ---- verdict
	for _, l := range cr.known {
		fmt.Println(l)
	}
	incon := uniq(cr.inconclusive)
	for _, l := range incon {
		fmt.Println("INCONCLUSIVE", l)
	}
	for _, l := range cr.internal {
		fmt.Println("INTERNAL", l)
	}
	for _, l := range cr.violations {
		fmt.Println(l)
	}
	wall := time.Since(t0).Seconds()
	if *canary {
		// canary mode: success means every harness produced a reproducing violation
		if len(cr.violations) == 0 || len(cr.internal) > 0 {
			fmt.Println("CANARY FAILED: no reproducing violation")
			os.Exit(3)
		}
		fmt.Printf("canary ok: %d reproducing violations\n", len(cr.violations))
		os.Exit(0)
	}
	// evidence
	var repoFns []string
	for f := range funcsRepo {
		repoFns = append(repoFns, f)
	}
	sort.Strings(repoFns)
	if len(samples) == 0 {
		samples = append(samples, sample{Harness: hs[0].Name, End: "none"})
	}
	ev := map[string]interface{}{
		"property_id": *prop,
		"tier":        *tier,
		"seed":        seed,
		"level":       "model_checking",
		"wall_s":      wall,
		"violations":  len(cr.violations),
		"coverage": map[string]interface{}{
			"states":                        max1(totalFeasible),
			"transitions":                   max1(int(symex.Stats.Queries)),
			"traces_validated_against_impl": totalValidated,
			"samples":                       samples,
			"evaluations":                   max1(totalPaths),
			"distinct_nontrivial":           nontrivial,
			"rule":                          "one evaluation = one symbolic path (decision vector) of a harness through the real code; distinct = distinct decision vectors; non-trivial = the path reached at least one assertion site. states = feasible paths, transitions = solver queries.",
			"exhaustive":                    len(incon) == 0 && len(cr.internal) == 0,
			"explanation":                   "bounded symbolic execution of the repository's go/ssa with SMT: every listed path stands for all inputs satisfying its path condition; assertions are decided by the solver (unsat = holds for all those inputs).",
			"harnesses":                     hstats,
			"bounds":                        params,
			"solver": map[string]interface{}{
				"queries": symex.Stats.Queries, "sat": symex.Stats.Sat, "unsat": symex.Stats.Unsat, "unknown": symex.Stats.Unknown,
				"errors": symex.Stats.Errors, "z3_seconds": float64(symex.Stats.NanosZ3) / 1e9, "cvc5_seconds": float64(symex.Stats.NanosCVC) / 1e9,
				"backends": "z3 4.8.12 (bit-vectors), cvc5 1.0 (paths with floating point)",
			},
			"functions_encoded_repo":   repoFns,
			"functions_encoded_stdlib": len(funcsStd),
			"inconclusive":             incon,
			"known_findings_printed":   cr.known,
			"internal_errors":          cr.internal,
		},
		"assumptions": []string{
			"x/tools v0.29.0 go/ssa builder and the interpreter fork are faithful to Go semantics (validated per run by native replay of path models)",
			"environment stubs of DESIGN.md section 2.5 (fmt, strconv formatting, sync, reflect emulation, time, os.Getenv, math.Pow as uninterpreted function)",
			"solver answers of z3/cvc5 are correct; unknown answers are reported as inconclusive",
			"bounds stated under coverage.bounds; inputs outside them are not covered",
		},
	}
	os.MkdirAll(filepath.Join(verifDir, "evidence"), 0755)
	b, _ := json.MarshalIndent(ev, "", " ")
	os.WriteFile(filepath.Join(verifDir, "evidence", *prop+".json"), b, 0644)
	fmt.Printf("%s %s: %d harnesses, %d paths (%d feasible), %d solver queries, %d native validations, %.1fs\n",
		*prop, *tier, len(hs), totalPaths, totalFeasible, symex.Stats.Queries, totalValidated, wall)
	nat.cleanup()
	switch {
	case len(cr.violations) > 0:
		// a violation reproduced against the native build stands, whatever
		// else went wrong elsewhere in the run (INTERNAL lines are printed)
		os.Exit(1)
	case len(cr.internal) > 0:
		os.Exit(3)
	}
	os.Exit(0)
}

func canaryEnv(on bool) []string {
	if on {
		return []string{"VERIF_CANARY=1"}
	}
	return nil
}

func flagSet(fs *flag.FlagSet, name string) bool {
	set := false
	fs.Visit(func(f *flag.Flag) {
		if f.Name == name {
			set = true
		}
	})
	return set
}

func max1(n int) int {
	if n < 1 {
		return 1
	}
	return n
}

func uniq(xs []string) []string {
	seen := map[string]bool{}
	var out []string
	for _, x := range xs {
		if !seen[x] {
			seen[x] = true
			out = append(out, x)
		}
	}
	return out
}

// dedupCands keeps one candidate per (site, known region, notes) class and at
// most a handful per site, so that replay stays cheap.
func dedupCands(cs []symex.Candidate) []symex.Candidate {
	seen := map[string]int{}
	var out []symex.Candidate
	for _, c := range cs {
		var ks []string
		for k, v := range c.Note {
			ks = append(ks, k+"="+v)
		}
		sort.Strings(ks)
		key := c.Site + "|" + c.Known + "|" + strings.Join(ks, ";") + "|" + c.Choices
		lim := 1
		if c.UF {
			lim = 8
		}
		if seen[key] >= lim {
			continue
		}
		persite := c.Site + "|" + c.Known
		if seen[persite] >= 40 && !c.UF || seen[persite] >= 64 {
			continue
		}
		seen[key]++
		seen[persite]++
		out = append(out, c)
	}
	return out
}

func cmdReplay(args []string) {
	fs := flag.NewFlagSet("replay", flag.ExitOnError)
	file := fs.String("file", "", "replay file")
	fs.Parse(args)
	b, err := os.ReadFile(*file)
	if err != nil {
		fatal(3, "%v", err)
	}
	var r struct {
		Property string            `json:"property"`
		Harness  string            `json:"harness"`
		Package  string            `json:"package"`
		Site     string            `json:"site"`
		Inputs   map[string]string `json:"inputs"`
	}
	if err := json.Unmarshal(b, &r); err != nil {
		fatal(3, "%v", err)
	}
	nat := newNativeRunner()
	defer nat.cleanup()
	outs, err := nat.run(r.Package, []nativeCase{{Harness: r.Harness, Model: r.Inputs}})
	if err != nil {
		fmt.Printf("native run died: %v\n", err)
		fmt.Printf("VIOLATION property=%s replay=%s\n", r.Property, *file)
		nat.cleanup()
		os.Exit(1)
	}
	o := outs[0]
	fmt.Printf("native observations: %v\nfailed assertions: %v\npanic: %q\n", o.Obs, o.Fails, o.Panic)
	for _, f := range o.Fails {
		if f == r.Site {
			fmt.Printf("VIOLATION property=%s replay=%s\n", r.Property, *file)
			nat.cleanup()
			os.Exit(1)
		}
	}
	fmt.Println("does not reproduce on the current tree")
}

func cmdRun(args []string) {
	fs := flag.NewFlagSet("run", flag.ExitOnError)
	h := fs.String("h", "ZZ_Smoke", "harness function")
	pkg := fs.String("pkg", "", "package dir relative to the repository root")
	workers := fs.Int("j", runtime.NumCPU(), "workers")
	tier := fs.String("tier", "quick", "tier")
	verbose := fs.Bool("v", false, "print every path")
	maxp := fs.Int64("max", 0, "stop after this many paths")
	fs.Parse(args)
	t0 := time.Now()
	ld, err := symex.Load(symex.LoadConfig{RepoDir: repoDir, HarnessDir: harnessDir, Module: module, Pkg: *pkg, Tags: "verif"})
	if err != nil {
		fatal(3, "%v", err)
	}
	fmt.Println("load+build", time.Since(t0))
	t1 := time.Now()
	kf := loadKnown()
	knownRegions := map[string][]string{}
	for _, k := range kf.Findings {
		knownRegions[k.Site] = append(knownRegions[k.Site], k.Region)
	}
	ex := symex.NewExplorer(symex.Options{Workers: *workers, Tier: *tier, MaxPaths: *maxp, KnownRegions: knownRegions})
	res, bugs := ex.Run(ld, *h)
	fmt.Println("explore", time.Since(t1), "paths", len(res))
	ends := map[string]int{}
	why := map[string]int{}
	ncand := 0
	for _, r := range res {
		ends[r.End]++
		if r.End == "unsupported" || r.End == "budget" {
			why[r.Why]++
		}
		if *verbose || len(r.Cands) > 0 {
			if *verbose {
				fmt.Printf("path %v end=%s why=%q steps=%d sites=%v obs=%v model=%v notes=%v\n", r.Decis, r.End, r.Why, r.Steps, r.Sites, r.ObsPred, r.Model, r.Notes)
			}
			for _, c := range r.Cands {
				ncand++
				if ncand <= 40 {
					fmt.Printf("   CAND site=%s known=%q inputs=%v notes=%v %s\n", c.Site, c.Known, c.Model, c.Note, c.PanicMsg)
				}
			}
		}
		for _, s := range r.Incon {
			fmt.Println("   INCON", s)
		}
	}
	for _, b := range bugs {
		fmt.Println("BUG", b)
	}
	fmt.Println("ends", ends, "candidates", ncand)
	for w, n := range why {
		fmt.Printf("  %dx %s\n", n, w)
	}
	fmt.Printf("solver: %+v\n", symex.Stats)
}

func main() {
	if len(os.Args) < 2 {
		fatal(3, "usage: vcheck check|replay|run ...")
	}
	if d := os.Getenv("VERIF_REPO"); d != "" {
		repoDir = d
	}
	if d := os.Getenv("VERIF_DIR"); d != "" {
		verifDir = d
		harnessDir = filepath.Join(d, "harness")
	}
	switch os.Args[1] {
	case "check":
		cmdCheck(os.Args[2:])
	case "replay":
		cmdReplay(os.Args[2:])
	case "run":
		cmdRun(os.Args[2:])
	default:
		fatal(3, "unknown command %s", os.Args[1])
	}
}
