#!/bin/bash
# run_seed.sh <seed-id> <property> [tier]
# Runs the property's check against the seeded change. The change is applied
# to a scratch worktree of /repo and the check runs from a scratch copy of
# /verif (VERIF_REPO / VERIF_DIR), so neither /repo's working tree nor the
# committed evidence is touched and other checks may run at the same time.
# (Equivalent to: git -C /repo apply <patch>; ./check ...; git -C /repo checkout -- .)
set -u
id="$1"; prop="$2"; tier="${3:-quick}"
work=$(mktemp -d /var/tmp/seedrun.XXXXXX)
trap 'git -C /repo worktree remove --force "$work/repo" 2>/dev/null; rm -rf "$work"; git -C /repo worktree prune' EXIT
git -C /repo worktree add -q --detach "$work/repo" HEAD || { echo "cannot create worktree"; exit 2; }
git -C "$work/repo" apply --3way /verif/seeded/$id/patch.diff 2>/dev/null || git -C "$work/repo" apply /verif/seeded/$id/patch.diff || { echo "patch does not apply"; exit 2; }
mkdir -p "$work/verif" /var/tmp/seedlogs
rsync -a --exclude .git --exclude replay --exclude evidence /verif/ "$work/verif/"
mkdir -p "$work/verif/evidence"
log=/var/tmp/seedlogs/$id.check.$prop.log
(cd "$work/verif" && VERIF_REPO="$work/repo" timeout 1500 ./check $prop $tier) > $log 2>&1; rc=$?
echo "seed=$id prop=$prop tier=$tier exit=$rc $(grep -c '^VIOLATION' $log) violation line(s)"
grep -m2 "counterexample" $log | cut -c1-300
grep -m3 "^INTERNAL\|^INCONCLUSIVE" $log | cut -c1-300
