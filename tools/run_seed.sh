#!/bin/bash
# run_seed.sh <seed-id> <property> [tier]  - applies the seeded change to /repo, runs the check, undoes it.
set -u
id="$1"; prop="$2"; tier="${3:-quick}"
cd /verif
git -C /repo diff --quiet || { echo "/repo has local changes"; exit 2; }
git -C /repo apply --3way /verif/seeded/$id/patch.diff 2>/dev/null || git -C /repo apply /verif/seeded/$id/patch.diff || { echo "patch does not apply"; exit 2; }
timeout 1500 ./check $prop $tier > /tmp/mut/$id.check.$prop.log 2>&1; rc=$?
git -C /repo reset -q --hard HEAD
echo "seed=$id prop=$prop tier=$tier exit=$rc $(grep -c '^VIOLATION' /tmp/mut/$id.check.$prop.log) violation line(s)"
grep -m2 "counterexample" /tmp/mut/$id.check.$prop.log | cut -c1-300
grep -m3 "^INTERNAL\|^INCONCLUSIVE" /tmp/mut/$id.check.$prop.log | cut -c1-300
