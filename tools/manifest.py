#!/usr/bin/env python3
"""Regenerates /verif/MANIFEST.json from the table below (kept in one place so
that claimed checks, not_applicable and texts stay consistent)."""
import json, sys

NOTE = ("Trusted base: x/tools v0.29.0 go/ssa builder; the symbolic fork of go/ssa/interp in /verif/engine/symex; "
        "z3 5.1.0 (z3-new) / cvc5 1.0; the environment stubs of DESIGN.md section I.5 (fmt/strconv formatting, sync, reflect emulation, time, os.Getenv, "
        "math.Pow as an uninterpreted function). Every run re-loads /repo's working tree, rebuilds the SSA and regenerates all queries; "
        "a sample of path models and every counterexample is replayed against the native build (go test -overlay), and a counterexample that does not "
        "reproduce is reported as an internal error (exit 3), never as a violation. Bounds are listed in evidence coverage.bounds and in DESIGN.md section 4; "
        "inputs outside them are not covered.")

CLAIMED = {
 "C01": ("Bounded symbolic execution of the real lexer/parser/compiler/optimizer/VM on `return a OP b;` for 16 operators x 64 ordered type pairs, unary operators and two-level nestings, "
         "operand payloads symbolic (any int64, any float64, ASCII strings of bounded length); the SMT solver decides, per path, that the result equals a three-valued specification table "
         "(VALUE/ERROR/UNSPEC) for all payloads. Holds within: strings <= 2 (quick) / 3 bytes, arrays <= 2 elements, nesting depth 2.", "4 C01"),
 "C05": ("Bounded symbolic execution: values of all 8 types with symbolic payloads and 5 provenances (host variable, reflected field, host function, VM singleton, built-in result) in every "
         "truth-consuming position (if, while, ternary, both sides of && and ||, !, Run's verdict), and all 64 ordered type pairs under && and ||; solver decides agreement with the statement's truth definition.", "4 C05"),
 "C16": ("Bounded symbolic execution of indexing (any int64 index) into strings (<= 3-4 characters incl. multi-byte), arrays (<= 3 mixed elements) and hashes (keys of int/float/string type whose printed forms coincide), "
         "membership, len and foreach over arrays, strings, ranges and hashes; solver decides element/null/never-error and visit order for all payloads.", "4 C16"),
 "C17": ("Bounded symbolic execution of the built-ins through scripts: min/max/between against numeric order (ints symbolic in a digit-bounded range, floats from a concrete set), sort/reverse (ordered permutation, input unchanged), "
         "join(split(s,d),d)==s for symbolic s,d, len/lower/upper/trim/string/int/type against the Go library on the printed form, every built-in at arities 0..4 x argument types, "
         "time decomposition for a symbolic instant with the calendar functions uninterpreted (shared by implementation and oracle).", "4 C17"),
 "C02": ("Bounded symbolic execution of generated control-flow programs (if/else-if/else, while, foreach over array/string/hash/range with value and index, switch with literal/expression/regexp cases and default in any position, ternary as value and as statement, return) "
         "whose conditions, loop counters, switch subjects and container contents are symbolic; result, host-call trace and final variables are compared with an independent reference interpreter; the solver covers every truth assignment and iterable content per program shape. "
         "Holds within: one construct (quick) / a construct nested inside any construct (thorough; nested level: if, if-else, while, foreach over an array) followed by a trace or return, loops <= 3 iterations, iterables <= 2 elements.", "4 C02"),
 "C03": ("Self-comparison under bounded symbolic execution: the same program prepared with and without NoOptimize, two runs each, must agree on failure, result (type and payload), host calls and variables. Programs: generated control flow with one constant condition "
         "(six kinds the optimizer rewrites) and constant arithmetic after ternary/if joins; 16 templates whose integer literals are symbolic in [0,70000] (injected at AST level), so the inline limit 65534 and every fold condition are decided by the solver.", "4 C03"),
 "C04": ("Bounded symbolic execution of the reflection layer: a struct with one field per supported kind (all leaf values symbolic, slices of length <= 2/3, two field orders, by value and by pointer), shadowing variables, unknown names, legacy $ prefix; "
         "a struct with 14 unsupported kinds (Run and Execute must not panic, no nil object); JSON-shaped nested maps; two consecutive runs on different objects.", "4 C04"),
 "C06": ("Bounded symbolic execution of 16 scope scenarios (parameter / local / foreach variable clashing with globals a and b, global assignment inside a callee, early return from foreach / while / switch / two nested loops inside a function, call before definition, recursion depth <= 3 driven by a symbolic argument, nested calls with equally named parameters, top-level loop variable) with symbolic integers and array contents, compared with a reference interpreter that implements the statement's scoping rules; "
         "plus wrong arity, unknown function and built-in-wins cases.", "4 C06"),
 "C07": ("Histories as symbolic inputs: a script whose fault path is selected by the object's field (division by zero two calls deep, panic(), arity mismatch, unknown function, early return from nested loops in a function, constant-pool literal increment, local/foreach clash) and whose top-level loop returns early for one field value "
         "is run on k = 2 (quick) / 3 objects with symbolic fields - the solver chooses which runs fault - and then on one more object; a freshly prepared evaluator given the same persistent variables must agree on result, error, host calls and variables, and the number of open scopes must not grow.", "4 C07"),
 "C15": ("Bounded symbolic execution of copy-then-mutate programs (assignment, parameter, array element, loop variable, object field; ++ -- += -= *= /=) with an integer literal that is symbolic in [0,70000] (AST-level), float and string literals, bodies in a loop and over two runs, compared with a value-semantics reference interpreter; "
         "host object given to SetVariable must not change.", "4 C15"),
 "C08": ("Bounded symbolic execution with the script text itself symbolic: every text of up to 2 (quick) / 3 bytes over a 36-symbol alphabet covering all lexer classes (incl. NUL, quotes, backslash, newline, a multi-byte character's bytes) and every sequence of up to 3 of 26 (quick) / 4 of 39 token spellings is driven through Prepare, Dump, Execute and Run; "
         "27 run-time fault scripts with symbolic operands (any int64 index/divisor, ranges, value-less calls as values, panic, hostile format strings) and 15 odd host objects (nil, non-structs, nil pointers, maps with other key/value kinds, structs with unconvertible fields) x 9 scripts; assertion: no Go panic escapes and the evaluator can be used again.", "4 C08"),
 "C09": ("Time as a symbolic variable: the context's Done channel becomes ready at poll K (K symbolic in [0,40] quick / [0,120]) or is cancelled by the host from inside its K-th callback; 8 non-terminating script shapes (top-level loops, nested foreach, unbounded recursion, loops inside functions inside loops, recursion then loop) through Run and Execute. "
         "The solver covers every cancellation moment: the run fails, the poll that saw the context done is the last one, no host callback happens after it, an already expired context prevents execution, and a script finishing before the deadline is unaffected.", "4 C09"),
 "C13": ("28 invalid fragments (unterminated string/regexp/block/parameter list/switch, missing operands, assignment and compound assignment to non-variables, local outside a function, nested ternaries, illegal characters incl. NUL, case outside switch, two defaults, malformed foreach) with symbolic string bodies, digits and identifier letters, "
         "placed in 24 enclosing contexts nested to depth 2 (quick) / 3; Prepare must return an error and the same contexts with a valid fragment must be accepted (vacuity guard); plus token-boundary truncations of valid programs with an open bracket.", "4 C13"),
 "C14": ("The lexer, parser and compiler executed on symbolic script bytes: string literals in both quote styles whose body is up to 3 (quick) / 4 characters, each any ASCII byte 1..127 or a multi-byte character, compared with a reference unescape; regexp literals (pattern and i/m flags reach the constant pool unchanged); integer literals of up to 4 / 5 symbolic digits and the int64 boundary 92233720368547758dd (value = sum of digits, decided by the solver), decimals, ranges; "
         "division-vs-regexp after 18 kinds of preceding text; token sequences with symbolic whitespace and // comments in the gaps; termination of NextToken for every byte string of length <= 2 / 3.", "4 C14"),
 "C20": ("API: Run against Execute for values of all types and provenances incl. a host function returning nothing, run-time errors and scripts running off the end; SetVariable/GetVariable round trips for all types in three call orders, also against objects with a same-named field; host functions of arity 0..3 with symbolic distinct arguments and all result types incl. void; NoOptimize leaves the compiler's output untouched byte for byte. "
         "Driver (harness in package main of cmd/evalfilter): runCmd is driven through its real Arguments(flag.FlagSet)+Execute with 16 scripts x 7 JSON documents (incl. % in values) (absent, valid, invalid, wrong shape, unreadable) x -no-optimizer x -timeout, and its captured standard output must be the line built from what Execute returns for the same script and decoded document (or the error line); lex, parse, bytecode and run return normally on every script text of <= 2 (quick) / 3 symbolic bytes over the lexer's alphabet. Files, JSON decoding of concrete text and context.WithTimeout are stubs; the built binary as a process, main's os.Exit and the subcommands dispatcher are outside.", "4 C20"),
 "C12": ("The real parser is run on every pair (quick) / triple (thorough) of the 18 binary operators, with prefix operators before and index/call after one operand, and its tree is compared structurally with an independent precedence-climbing parser parameterised only by the statement's binding order; "
         "minimal, redundant and full parenthesisations of a OP1 b OP2 c over 12 operators are executed on symbolic integers and must agree with each other and with the language definition of the implied grouping (solver, all operand values); ternary arms with and without redundant parentheses, nested ternaries rejected.", "4 C12"),
 "C18": ("A bytecode verifier (decoder, control-flow graph, abstract stack-depth interpretation over all CFG paths whether or not an input can take them) is applied to the main body and every function body, both as compiled and as the machine will run them (public walkers, optimizer on and off), for every program of the control-flow and scope generators, "
         "15 templates whose integer literals are symbolic in [0,70000] at AST level (the solver picks operand bytes that look like opcodes and values on either side of the inline limit) and scripts with 20..27 constants before a function whose last instruction refers to the newest constant. Programs with more than 64 KiB of code (16-bit operand overflow) are outside the bound.", "4 C18"),
 "C19": ("Map-iteration order as a nondeterministic stub: every range over a Go map and every reflect MapKeys in lexer, parser, compiler, VM, objects and built-ins returns an arbitrary permutation (all permutations for maps of <= 4 entries, four representative orders above; one order per map object and size). 14 scripts (hash literals with alike-printing and duplicate keys, keys(), foreach, string()/print of nested hashes, three functions, map-typed host objects) are prepared and run twice under insertion order and again under arbitrary orders: constants, main and function code, results, host calls and output must be identical. Counterexamples are replayed natively by repetition (up to 300 tries).", "4 C19"),
 "C10": ("Safety monitor inside the symbolic executor: it has no model for any function of os (other than Getenv and writes to standard output), os/exec, os/user, net*, syscall, io/fs, io/ioutil, plugin; a path that reaches one is a counterexample, which the native twin then confirms under strace (system calls diffed against a benign baseline; the time-zone database, /proc and /sys are allowed). "
         "Sweep: every built-in that environment.New() registers (read at run time) with 0..3 arguments of all 8 types incl. hostile strings (paths, URLs, format strings); the name given to getenv is symbolic (2..5 upper-case letters, variable unset) and every other variable of the process environment that a built-in asks for is unset or holds a path (the solver picks; exported to the native twin). Completeness guard: every call site of such a primitive in the library (from the SSA) must have been reached, otherwise the run says so. The monitor is also active in every other check.", "4 C10"),
 "C11": ("Interleavings as solver variables: 2 (quick) / 3 goroutines (Run on one shared evaluator; or New+Prepare+Run on separate evaluators) are executed by the engine in every order with all heap-cell and map accesses and all mutex operations logged; for every conflicting pair of accesses the SMT solver is asked for a schedule - timestamps per event, program order, mutual exclusion of critical sections on the same mutex, every lock-protected read still seeing the write it saw - in which the two are adjacent (a data race). "
         "Every predicted race is replayed with real goroutines under go test -race. Also: each object gets the sequential verdict and a per-run counter loses no update in every explored order. Eight scripts using fields, variables, regexps, built-ins, foreach, a user function, hash literals with string keys and a nested host map.", "4 C11"),
}

# harness families added after the first version of each text (DESIGN.md I.4, "Later additions")
EXTRA = {
 "C01": "operators with literal and object-field operands incl. && and || (what compile-time rewriting sees), the index operator on multi-byte strings of three origins, prefix operators over literals and constant sub-expressions, printed forms of floats up to 1e300 and of whole numbers beyond 2^63, extreme integers against edge floats (10 operators), regexp subjects with blanks and newlines",
 "C02": "`for` loops, non-string switch subjects against literal/expression/regexp arms, conditionals in tail position after foldable constants, statements before a loop whose body calls a looping function",
 "C03": "one operator between a literal and a variable/field/literal of every type (18 operators), 30 prefix-operator forms over constants, jumps landing on jumps after bytes the optimizer removes, `**` `%` `/` `*` between literals whose results leave 64 bits, constants of other types that print like folded results, removed constant-bearing code before ++/--",
 "C04": "the same pointer or map updated in place between runs, runs after a run that failed (six ways, four shape pairs), maps of different key sets one after the other, embedded structs with colliding field names, slice fields sharing a backing array",
 "C05": "values written as literals in the script and results of && / || over literals as further origins, positions consuming !!v",
 "C06": "names used before their `local` declaration, zero-parameter functions with `local` inside nested blocks (scenarios 18-24), correct calls after 100/400 runs that failed 120 frames deep, callees leaving values behind under pending operands",
 "C07": "a recursion 1100/3000 deep that ends normally or in a fault, histories of 1000/4000 failing runs, histories over objects of other shapes (maps with other keys, other struct types, pointers), reconfiguration between runs (AddFunction, SetVariable) used vs fresh, runs failing during the conversion of the host object",
 "C08": "run-time faults spelled with symbolic literals (folding at preparation), 12 orders of Prepare/Execute/Run/Dump incl. before Prepare and after a rejected one, symbolic 3/4-byte endings after 11 beginnings, self-containing host objects, run-time faults under a context; paths that leave the encoding are replayed natively to see whether the real build survives",
 "C09": "terminating scripts under a context that is already done; loops that do nothing at all (exhausting the instruction budget is a failed assertion there), single operations with huge operands; goroutines started by the code under test are modelled as not yet scheduled",
 "C10": "adversarial TZ values; a script that assigns a variable whose name is symbolic (the solver finds any spelling the machine consults), script texts that look like file names, URLs or commands",
 "C11": "scripts that assign nothing (loops, calls), sync.Pool of the code under test modelled with Put-to-Get hand-over edges, evaluators sharing one container object",
 "C12": "operands that are literal containers or strings indexed in place and chains of index/call/field selections, pairs of prefix operators, expressions as statements",
 "C13": "a symbolic illegal character in three placements, contexts in which a later part overrides or hides the part with the hole, Prepare asked again after a rejection",
 "C15": "values handed out by foreach (kept directly, through a function, as previous value, in an array), values computed inside array literals or call arguments and then mutated, arithmetic on values taken out of containers",
 "C16": "host strings of arbitrary bytes (invalid UTF-8): len, index and foreach agree with the host language's own walk; long string keys differing in one position",
 "C17": "replace/match with symbolic input and replacement against the host regexp library, float() and more argument types for the conversions, concrete instants and zones with sub-minute offsets",
 "C18": "35 statement kinds as the last statement of a function body in four places of definition, hash literals with repeated or coinciding keys, programs ending in nested blocks",
 "C19": "programs large enough for whole-script budgets (2-3 functions with 300/700-term constant chains), two equal but separately allocated host objects with pointer-rich fields, NaN and signed-zero hash keys, interface-keyed host maps with coinciding keys",
 "C20": "AddFunction / SetVariable again between runs, the driver with a time-out that has already expired, NoOptimize among other flag bytes, Run against Execute under contexts given before / after Prepare",
}

TECH = "bounded symbolic execution of the repository's go/ssa (own SSA interpreter fork) with SMT (z3/cvc5) deciding each path assertion; native replay of models"

def main():
    props = [json.loads(l) for l in open('/verif/properties.jsonl')]
    na_reasons = json.load(open('/verif/tools/not_applicable.json'))
    checks = []
    na = []
    for p in props:
        pid = p["id"]
        if pid in CLAIMED:
            text, ref = CLAIMED[pid]
            if pid in EXTRA:
                text += " Harness families added later: " + EXTRA[pid] + "."
            checks.append({
                "property_id": pid,
                "quick_cmd": "./check %s quick" % pid,
                "thorough_cmd": "./check %s thorough" % pid,
                "evidence_file": "/verif/evidence/%s.json" % pid,
                "replay_cmd_template": "./check %s --replay {path}" % pid,
                "engine": "vcheck",
                "level_claimed": {"category": "model_checking", "text": text, "design_ref": "DESIGN.md section " + ref},
                "level_note": NOTE,
                "technique": TECH,
            })
        else:
            na.append({"property_id": pid, "reason": na_reasons.get(pid, "check not built yet (build in progress; see DESIGN.md section 4 for the plan)")})
    m = {
        "version": 1,
        "setup_cmd": "cd /verif/engine && GOFLAGS=-mod=mod GOPROXY=off GOSUMDB=off GOTOOLCHAIN=local go build -o /verif/bin/vcheck ./cmd/vcheck",
        "hooks": {
            "guard": "verif (build tag; harness files are injected with -overlay, nothing is committed to /repo for hooks)",
            "enable": "go/packages Overlay and `go test -tags verif -overlay <generated json>` map /verif/harness/** onto /repo/**",
            "baseline_off_cmd": "cd /repo && go test -vet=off -count=1 ./...",
            "source_commits": [],
            "add_only": True,
        },
        "engines": [{"name": "vcheck", "path": "/verif/engine", "serves_properties": sorted(CLAIMED),
                     "kind_free_text": "bounded symbolic execution of the repository's go/ssa (fork of x/tools go/ssa/interp with symbolic scalars, strings and nondeterministic stubs) + SMT (z3 5.1.0 as z3-new, z3 4.8.12 for cross-checks, cvc5 1.0 for floating point), native replay via go test -overlay"}],
        "checks": checks,
        "not_applicable": na,
        "notes": "see DESIGN.md; known_findings.json lists recorded findings and fixed defects",
    }
    json.dump(m, open('/verif/MANIFEST.json', 'w'), indent=1)
    print("claimed:", sorted(CLAIMED), "not applicable:", len(na))

main()
