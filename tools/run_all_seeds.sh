#!/bin/bash
# run_all_seeds.sh [jobs]  - every seeded change against its property's quick check (scratch copies).
cd /verif
jobs="${1:-3}"
ls seeded | while read id; do
  prop=$(python3 -c "import json;print(json.load(open('/verif/seeded/$id/meta.json'))['breaks_property'])")
  echo "$id $prop"
done | xargs -P "$jobs" -L 1 bash -c 'tools/run_seed.sh $0 $1 | head -1' | sort | tee /var/tmp/seedlogs/ALL.txt
echo "caught: $(grep -c 'exit=1' /var/tmp/seedlogs/ALL.txt) of $(wc -l < /var/tmp/seedlogs/ALL.txt)"
