#!/bin/bash
# selftest.sh - vacuity twins (canaries) for every property, and a solver
# cross-check (z3 5.1.0 against z3 4.8.12) on two cheap checks.
cd "$(dirname "$0")/.."
fail=0
for p in $(python3 -c "import json;print(' '.join(c['property_id'] for c in json.load(open('MANIFEST.json'))['checks']))"); do
  if timeout 1800 ./check $p canary > /tmp/selftest.$p.log 2>&1; then echo "canary $p ok: $(tail -1 /tmp/selftest.$p.log)"; else echo "canary $p FAILED"; fail=1; fi
done
for p in C05 C16; do
  a=$(timeout 900 ./check $p quick 2>&1 | grep -a "^$p quick" | sed 's/, [0-9]* solver queries.*//')
  b=$(VCHECK_BV_SOLVER=z3 timeout 1800 ./check $p quick 2>&1 | grep -a "^$p quick" | sed 's/, [0-9]* solver queries.*//')
  if [ "$a" = "$b" ]; then echo "solver cross-check $p ok: $a"; else echo "solver cross-check $p DIFFERS: [$a] vs [$b]"; fail=1; fi
done
exit $fail
