#!/bin/bash
# confirm_mutant.sh <worktree> <seed-id> <property>
# Confirms a seeded change in a scratch worktree: builds, passes the existing
# suite, demonstration fails with the change and passes without it; then
# stores patch + demonstration under /verif/seeded/<seed-id>/.
set -u
wt="$1"; id="$2"; prop="$3"
export GOFLAGS=-mod=mod GOPROXY=off GOSUMDB=off GOTOOLCHAIN=local
cd "$wt" || exit 2
demos=$(git status --porcelain | awk '$1=="??"{print $2}' | grep '_test.go$')
[ -z "$demos" ] && { echo "no demo test found"; exit 2; }
git diff > /tmp/mut/$id.patch
[ -s /tmp/mut/$id.patch ] || { echo "empty patch"; exit 2; }
mkdir -p /tmp/mut/aside.$id; for d in $demos; do mkdir -p /tmp/mut/aside.$id/$(dirname $d); mv $d /tmp/mut/aside.$id/$d; done
go build ./... || { echo "BUILD FAILS"; exit 1; }
if go test -vet=off -count=1 ./... > /tmp/mut/$id.suite.log 2>&1; then suite=pass; else suite=FAIL; fi
for d in $demos; do mv /tmp/mut/aside.$id/$d $d; done
pkgs=$(for d in $demos; do echo ./$(dirname $d); done | sort -u)
if go test -vet=off -count=1 -run 'Demo|ZZ' $pkgs > /tmp/mut/$id.with.log 2>&1; then with=pass; else with=fail; fi
git apply -R /tmp/mut/$id.patch   # (git stash is shared between worktrees: never use it here)
if go test -vet=off -count=1 -run 'Demo|ZZ' $pkgs > /tmp/mut/$id.without.log 2>&1; then without=pass; else without=fail; fi
git apply /tmp/mut/$id.patch
echo "suite=$suite demo_with_change=$with demo_without_change=$without"
if [ "$suite" = pass ] && [ "$with" = fail ] && [ "$without" = pass ]; then
  out=/verif/seeded/$id; mkdir -p $out
  cp /tmp/mut/$id.patch $out/patch.diff
  for d in $demos; do cp $d $out/$(echo $d | tr / _); done
  [ -f MUTATION.md ] && cp MUTATION.md $out/MUTATION.md
  echo CONFIRMED
else
  echo NOT-CONFIRMED; tail -5 /tmp/mut/$id.suite.log /tmp/mut/$id.with.log /tmp/mut/$id.without.log
fi
