#!/bin/bash
# run_at_commit.sh <commit> <property> [tier]  - the property's check against an older commit of /repo (scratch worktree + scratch copy of /verif).
set -u
c="$1"; prop="$2"; tier="${3:-quick}"
work=$(mktemp -d /var/tmp/atcommit.XXXXXX)
trap 'git -C /repo worktree remove --force "$work/repo" 2>/dev/null; rm -rf "$work"; git -C /repo worktree prune' EXIT
git -C /repo worktree add -q --detach "$work/repo" "$c" || exit 2
mkdir -p "$work/verif"
rsync -a --exclude .git --exclude replay --exclude evidence /verif/ "$work/verif/"
mkdir -p "$work/verif/evidence"
(cd "$work/verif" && VERIF_REPO="$work/repo" timeout 1500 ./check $prop $tier) 2>&1 | grep -E "counterexample|^VIOLATION|^INTERNAL|^KNOWN|quick:|thorough:" | cut -c1-300 | head -${4:-12}
