//go:build verif

package evalfilter

import (
	"github.com/skx/evalfilter/v2/object"
	"github.com/skx/evalfilter/v2/zzsv"
)

func init() { zzsv.Register("ZZ_C00_Smoke", ZZ_C00_Smoke) }

// ZZ_C00_Smoke is the engine's end-to-end smoke test.
func ZZ_C00_Smoke(sv *zzsv.T) {
	a := sv.Int64("a")
	b := sv.Int64("b")
	e := New("if (a < b) { return a + b * 2; } return \"abc\"[a];")
	e.SetVariable("a", &object.Integer{Value: a})
	e.SetVariable("b", &object.Integer{Value: b})
	if err := e.Prepare(); err != nil {
		sv.Assert("smoke.prepare", false)
		return
	}
	out, err := e.Execute(nil)
	sv.Observe("err", err != nil)
	if a < b {
		i, ok := out.(*object.Integer)
		sv.Assert("smoke.type", err == nil && ok)
		if ok {
			sv.Observe("val", i.Value)
			sv.Assert("smoke.add", i.Value == a+b*2)
		}
		return
	}
	// a >= b: string index; out of range must be null, never an error
	sv.Assert("smoke.index.noerr", err == nil)
}
