//go:build verif

package evalfilter

// C20 (API part) - the embedding API is a faithful front end.

import (
	"github.com/skx/evalfilter/v2/code"
	"github.com/skx/evalfilter/v2/object"
	"github.com/skx/evalfilter/v2/zzsv"
)

func init() {
	zzsv.Register("ZZ_C20_RunVsExecute", ZZ_C20_RunVsExecute)
	zzsv.Register("ZZ_C20_Variables", ZZ_C20_Variables)
	zzsv.Register("ZZ_C20_HostFunctions", ZZ_C20_HostFunctions)
	zzsv.Register("ZZ_C20_Reconfigure", ZZ_C20_Reconfigure)
	zzsv.Register("ZZ_C20_NoOptimize", ZZ_C20_NoOptimize)
}

// ZZ_C20_RunVsExecute: Run returns exactly the truth value of what Execute
// returns for the same object and fails exactly when it fails.
func ZZ_C20_RunVsExecute(sv *zzsv.T) {
	t := sv.Choice("type", nTypes+2)
	prov := sv.Choice("prov", 5)
	e1, e2 := New(""), New("")
	var obj1, obj2 interface{}
	var expr string
	var val zv
	switch {
	case t < nTypes:
		val = zzValue(sv, "v", t, 2)
		var ok1, ok2 bool
		obj1, expr, ok1 = zzProvide(sv, e1, "v", val, prov)
		obj2, _, ok2 = zzProvide(sv, e2, "v", val, prov)
		sv.Assume(ok1 && ok2)
	case t == nTypes: // a host function that returns nothing
		sv.Assume(prov == 0)
		void := func(args []object.Object) object.Object { return &object.Void{} }
		e1.AddFunction("nothing", void)
		e2.AddFunction("nothing", void)
		expr = "nothing()"
	default: // a run-time error
		sv.Assume(prov == 0)
		d := sv.Int64("d")
		e1.SetVariable("d", &object.Integer{Value: d})
		e2.SetVariable("d", &object.Integer{Value: d})
		expr = "10 / d"
	}
	src := "return " + expr + ";"
	if sv.Choice("fallthrough", 2) == 1 {
		src = "if (" + expr + ") { return " + expr + "; }" // may run off the end: null
	}
	e1.Script, e2.Script = src, src
	sv.Note("script", src)
	// the two evaluators are configured identically - also with a context:
	// none, one given before Prepare, one given after Prepare (too late to
	// matter or not: Run and Execute must make the same of it), one that is
	// already done
	when := sv.Choice("context", 4)
	if when == 1 || when == 3 {
		k := sv.Param("ctx.never", 1000000, 1000000)
		if when == 3 {
			k = 0
		}
		c1, c2 := sv.Ctx("ctx1", k), sv.Ctx("ctx2", k)
		sv.Assume(c1.K == int64(k) && c2.K == int64(k))
		e1.SetContext(c1)
		e2.SetContext(c2)
	}
	sv.Assume(e1.Prepare() == nil)
	sv.Assume(e2.Prepare() == nil)
	if when == 2 {
		c1, c2 := sv.Ctx("ctx1", 0), sv.Ctx("ctx2", 0)
		e1.SetContext(c1)
		e2.SetContext(c2)
	}
	out, eerr := e1.Execute(obj1)
	verdict, rerr := e2.Run(obj2)
	zzDescribe(sv, "execute", out, eerr)
	sv.Observe("run", verdict, rerr != nil)
	sv.Assert("C20.run.fails_iff_execute_fails", (eerr != nil) == (rerr != nil))
	if eerr == nil && rerr == nil {
		sv.Assert("C20.run.truth_of_execute", verdict == out.True())
	}
}

// ZZ_C20_Variables: SetVariable is what the script reads; GetVariable is
// what the script last assigned (null if never), in any call order.
func ZZ_C20_Variables(sv *zzsv.T) {
	t := sv.Choice("type", nTypes)
	val := zzValue(sv, "v", t, 2)
	order := sv.Choice("order", 3) // set before Prepare / after Prepare / between runs
	shapes := []string{
		"seen = v; w = 5; return v;",
		// the variable's name is also a parameter of a function that returns from nested loops
		"function g(v) { foreach a in [1, 2] { foreach b in [3, 4] { if (b == 4) { return a; } } } return 0; } u = g(9); seen = v; w = 5; return v;",
		// read and returned from inside nested loops at top level
		"foreach a in [1] { foreach b in [2] { seen = v; w = 5; return v; } }",
		// a parameter of the same name is assigned inside the function
		"function g(v) { v = 1; return v; } u = g(2); seen = v; w = 5; return v;",
	}
	shape := sv.Choice("shape", len(shapes))
	e := New(shapes[shape])
	sv.Note("script", e.Script)
	sv.Note("types", zzTypeNames[t])
	if order == 0 {
		e.SetVariable("v", val.obj())
	}
	sv.Assert("C20.var.unset_is_null", zzSame(sv, e.GetVariable("never"), zNull()))
	sv.Assume(e.Prepare() == nil)
	if order == 1 {
		e.SetVariable("v", val.obj())
	}
	if order == 2 {
		e.SetVariable("v", &object.Integer{Value: 1})
		_, err0 := e.Execute(nil)
		sv.Assume(err0 == nil)
		e.SetVariable("v", val.obj())
	}
	// the object may have a field of the same name: the variable is what the
	// script reads, also after other fields have been looked up
	var obj interface{}
	oc := sv.Choice("object", 3)
	sv.Assume(oc == 0 || shape == 0)
	switch oc {
	case 1:
		obj = map[string]interface{}{"v": "field-v", "other": 1}
	case 2:
		obj = map[string]interface{}{"v": "field-v", "other": 1}
		e2 := New("probe = other; seen = v; w = 5; return v;")
		sv.Assume(order == 0)
		e2.SetVariable("v", val.obj())
		sv.Assume(e2.Prepare() == nil)
		e = e2
	}
	out, err := e.Execute(obj)
	zzDescribe(sv, "result", out, err)
	sv.Assert("C20.var.noerror", err == nil)
	if err != nil {
		return
	}
	if t != tHash {
		sv.Assert("C20.var.script_reads_it", zzSame(sv, out, val))
		sv.Assert("C20.var.get_returns_assigned", zzSame(sv, e.GetVariable("seen"), val))
	} else {
		sv.Assert("C20.var.script_reads_it", out.Type() == object.HASH)
	}
	sv.Assert("C20.var.get_literal", zzSame(sv, e.GetVariable("w"), zInt(5)))
	sv.Assert("C20.var.get_never_assigned", zzSame(sv, e.GetVariable("q"), zNull()))
	// loop variables and parameters are not variables of the script afterwards
	sv.Assert("C20.var.get_loop_variable", zzSame(sv, e.GetVariable("a"), zNull()) && zzSame(sv, e.GetVariable("b"), zNull()))
}

// ZZ_C20_HostFunctions: a host function is called once per call with the
// script's arguments in order; its result - or nothing, for void - is the
// call's value.
func ZZ_C20_HostFunctions(sv *zzsv.T) {
	n := sv.Choice("arity", 4)
	void := sv.Choice("void", 2) == 1
	var args []zv
	names := []string{"p0", "p1", "p2"}
	calls := 0
	var got []object.Object
	ret := zzValue(sv, "ret", sv.Choice("rettype", nTypes), 1)
	e := New("")
	call := "h("
	for k := 0; k < n; k++ {
		a := zInt(sv.Int64(names[k]))
		args = append(args, a)
		e.SetVariable(names[k], a.obj())
		if k > 0 {
			call += ", "
		}
		call += names[k]
	}
	call += ")"
	e.AddFunction("h", func(a []object.Object) object.Object {
		calls++
		got = a
		if void {
			return &object.Void{}
		}
		return ret.obj()
	})
	if void {
		e.Script = call + "; " + call + "; return 7;"
	} else {
		e.Script = "x = " + call + "; return x;"
	}
	sv.Note("script", e.Script)
	sv.Assume(e.Prepare() == nil)
	out, err := e.Execute(nil)
	zzDescribe(sv, "result", out, err)
	sv.Assert("C20.host.noerror", err == nil)
	if err != nil {
		return
	}
	if void {
		sv.Assert("C20.host.calls", calls == 2)
		sv.Assert("C20.host.void_leaves_nothing", zzSame(sv, out, zInt(7)))
	} else {
		sv.Assert("C20.host.calls", calls == 1)
		if ret.t != tHash {
			sv.Assert("C20.host.result", zzSame(sv, out, ret))
		}
	}
	sv.Assert("C20.host.argcount", len(got) == n)
	if len(got) == n {
		for k := 0; k < n; k++ {
			sv.Assert("C20.host.args_in_order", zzSame(sv, got[k], args[k]))
		}
	}
}

// ZZ_C20_NoOptimize: NoOptimize disables optimisation: the program the
// machine runs is the compiler's output, byte for byte.
func ZZ_C20_NoOptimize(sv *zzsv.T) {
	scripts := []string{
		"return 1 + 2;",
		"if (1 == 1) { return A; } return 3 * 4;",
		"function f(a) { return a + 2 * 3; } return f(A);",
		"x = A > 3 ? 1 : 2; while (false) { x = 5; } return x;",
	}
	src := scripts[sv.Choice("script", len(scripts))]
	sv.Note("script", src)
	a := sv.Int64("A")
	e := New(src)
	e.SetVariable("A", &object.Integer{Value: a})
	// NoOptimize alone, among other flag bytes (before, after, around it),
	// given twice, and spread over several arguments
	other := byte(sv.Byte("otherflag"))
	sv.Assume(other != NoOptimize)
	var perr error
	switch sv.Choice("flags", 7) {
	case 0:
		perr = e.Prepare([]byte{NoOptimize})
	case 1:
		perr = e.Prepare([]byte{NoOptimize, other})
	case 2:
		perr = e.Prepare([]byte{other, NoOptimize})
	case 3:
		perr = e.Prepare([]byte{other, NoOptimize, other})
	case 4:
		perr = e.Prepare([]byte{NoOptimize}, []byte{other})
	case 5:
		perr = e.Prepare([]byte{other}, []byte{NoOptimize}, []byte{})
	default:
		perr = e.Prepare([]byte{NoOptimize, NoOptimize, other})
	}
	sv.Assume(perr == nil)
	compiled := append(code.Instructions{}, e.instructions...)
	var walked code.Instructions
	werr := e.machine.WalkBytecode(func(offset int, op code.Opcode, arg interface{}) (bool, error) {
		walked = append(walked, byte(op))
		if arg != nil {
			walked = append(walked, byte(arg.(int)>>8), byte(arg.(int)))
		}
		return true, nil
	})
	sv.Assert("C20.noopt.walk", werr == nil)
	same := len(walked) == len(compiled)
	if same {
		for k := range walked {
			if walked[k] != compiled[k] {
				same = false
			}
		}
	}
	sv.Assert("C20.noopt.code_is_compiler_output", same)
	out, err := e.Execute(nil)
	zzDescribe(sv, "result", out, err)
	sv.Assert("C20.noopt.runs", err == nil)
	// "and nothing else": the same script prepared with the optimizer gives
	// the same result
	f := New(src)
	f.SetVariable("A", &object.Integer{Value: a})
	sv.Assume(f.Prepare([]byte{other}) == nil)
	out2, err2 := f.Execute(nil)
	sv.Assert("C20.noopt.same_result_as_optimized", err2 == nil && err == nil && zzSameObj(sv, out, out2))
}

// ZZ_C20_Reconfigure: the front end is faithful at every moment, not only
// before the first run: a function registered again under the same name, a
// function registered after Prepare, and a variable set again between runs
// are what the next run uses - the evaluator keeps no private copy from
// earlier runs.
func ZZ_C20_Reconfigure(sv *zzsv.T) {
	a := sv.Int64("A")
	r1 := sv.Int64("r1")
	r2 := sv.Int64("r2")
	v1 := sv.Int64("v1")
	v2 := sv.Int64("v2")
	scripts := []string{
		"return h(A) + v;",
		"function w(p) { return h(p); } return w(A) + v;",
		"x = 0; foreach k in [1, 2] { x = h(A); } return x + v;",
	}
	e := New(scripts[sv.Choice("script", len(scripts))])
	sv.Note("script", e.Script)
	calls1, calls2 := 0, 0
	e.AddFunction("h", func(args []object.Object) object.Object {
		calls1++
		return &object.Integer{Value: args[0].(*object.Integer).Value + r1}
	})
	e.SetVariable("A", &object.Integer{Value: a})
	e.SetVariable("v", &object.Integer{Value: v1})
	if sv.Choice("noopt", 2) == 1 {
		sv.Assume(e.Prepare([]byte{NoOptimize}) == nil)
	} else {
		sv.Assume(e.Prepare() == nil)
	}
	warm := sv.Choice("runs_before", 3) // 0, 1 or 2 runs before the change
	for k := 0; k < warm; k++ {
		out, err := e.Execute(nil)
		sv.Assert("C20.reconf.before", err == nil && zzSame(sv, out, zInt(a+r1+v1)))
	}
	perRun := 1
	if e.Script == scripts[2] {
		perRun = 2
	}
	sv.Assert("C20.reconf.calls_before", calls1 == warm*perRun)
	what := sv.Choice("change", 3)
	wantR, wantV := r1, v1
	if what == 0 || what == 2 {
		e.AddFunction("h", func(args []object.Object) object.Object {
			calls2++
			return &object.Integer{Value: args[0].(*object.Integer).Value + r2}
		})
		wantR = r2
	}
	if what == 1 || what == 2 {
		e.SetVariable("v", &object.Integer{Value: v2})
		wantV = v2
	}
	before := calls1
	out, err := e.Execute(nil)
	zzDescribe(sv, "result", out, err)
	sv.Assert("C20.reconf.after", err == nil && zzSame(sv, out, zInt(a+wantR+wantV)))
	if what == 1 {
		sv.Assert("C20.reconf.calls_after", calls1 == before+perRun && calls2 == 0)
	} else {
		sv.Assert("C20.reconf.calls_after", calls1 == before && calls2 == perRun)
	}
	ok, rerr := e.Run(nil)
	sv.Assert("C20.reconf.run_agrees", rerr == nil && ok == (a+wantR+wantV > 0))
}
