//go:build verif

package evalfilter

// C03 - the optimizer never changes what a script does: self-comparison of
// the same program prepared with and without NoOptimize.

import (
	"strings"
	"github.com/skx/evalfilter/v2/ast"
	"github.com/skx/evalfilter/v2/lexer"
	"github.com/skx/evalfilter/v2/object"
	"github.com/skx/evalfilter/v2/parser"
	"github.com/skx/evalfilter/v2/vm"
	"github.com/skx/evalfilter/v2/zzsv"
)

func init() {
	zzsv.Register("ZZ_C03_Programs", ZZ_C03_Programs)
	zzsv.Register("ZZ_C03_Literals", ZZ_C03_Literals)
	zzsv.Register("ZZ_C03_LongPrograms", ZZ_C03_LongPrograms)
	zzsv.Register("ZZ_C03_MixedOperands", ZZ_C03_MixedOperands)
	zzsv.Register("ZZ_C03_UnaryLiterals", ZZ_C03_UnaryLiterals)
	zzsv.Register("ZZ_C03_TailJumps", ZZ_C03_TailJumps)
	zzsv.Register("ZZ_C03_PowerLiterals", ZZ_C03_PowerLiterals)
}

// zzSameObj: two results of the implementation are the same value.
func zzSameObj(sv *zzsv.T, a, b object.Object) bool {
	if a == nil || b == nil {
		return a == nil && b == nil
	}
	if a.Type() != b.Type() {
		return false
	}
	switch x := a.(type) {
	case *object.Integer:
		return x.Value == b.(*object.Integer).Value
	case *object.Float:
		return sv.FloatSame(x.Value, b.(*object.Float).Value)
	case *object.String:
		return x.Value == b.(*object.String).Value
	case *object.Boolean:
		return x.Value == b.(*object.Boolean).Value
	case *object.Array:
		y := b.(*object.Array)
		if len(x.Elements) != len(y.Elements) {
			return false
		}
		for k := range x.Elements {
			if !zzSameObj(sv, x.Elements[k], y.Elements[k]) {
				return false
			}
		}
		return true
	}
	return true
}

// zzCompareTwo asserts that two evaluators behaved identically.
func zzCompareTwo(sv *zzsv.T, site string, e1, e2 *Eval, o1, o2 object.Object, err1, err2 error, t1, t2 []object.Object, vars []string) {
	sv.Observe(site+".err", err1 != nil, err2 != nil)
	sv.Assert(site+".same_failure", (err1 != nil) == (err2 != nil))
	if err1 != nil || err2 != nil {
		return
	}
	sv.Assert(site+".same_result", zzSameObj(sv, o1, o2))
	sv.Assert(site+".same_calls", len(t1) == len(t2))
	if len(t1) == len(t2) {
		for k := range t1 {
			sv.Assert(site+".same_call_args", zzSameObj(sv, t1[k], t2[k]))
		}
	}
	for _, v := range vars {
		sv.Assert(site+".same_vars", zzSameObj(sv, e1.GetVariable(v), e2.GetVariable(v)))
	}
}

// constCond: constant conditions and arithmetic the optimizer folds.
func (g *zzGen) constCond(kind int) *zzExpr {
	switch kind {
	case 1:
		return xBin("==", xLit(1), xLit(1))
	case 2:
		return xBin("==", xLit(1), xLit(2))
	case 3:
		return xBin("!=", xLit(0), xLit(3))
	case 4:
		return &zzExpr{kind: eTrue}
	case 5:
		return &zzExpr{kind: eFalse}
	default:
		return xBin("==", xBin("+", xLit(1), xLit(2)), xLit(3))
	}
}

// ZZ_C03_Programs: control-flow programs whose conditions are constant
// comparisons / constant arithmetic (what the optimizer rewrites) mixed with
// symbolic ones; two runs on each evaluator.
func ZZ_C03_Programs(sv *zzsv.T) {
	// (constructs nested two deep, times six kinds of constant condition,
	// times the positions and suffixes, are some 15 million paths: nesting is
	// left to C02's thorough tier and to ZZ_C03_TailJumps)
	g := newGen(sv, sv.Param("depth", 1, 1))
	// one condition of the program (the k-th one generated) is a constant
	// expression of the chosen kind; the others stay symbolic
	g.small = sv.Param("c03.small", 1, 0) == 1
	g.constKind = 1 + sv.Choice("constkind", 6)
	g.constAt = sv.Choice("constat", sv.Param("constat", 1, 2))
	p := &zzProg{}
	if sv.Param("c03.full", 0, 1) == 1 {
		p = g.program()
	} else {
		p.main = append(p.main, g.compound(1), &zzStmt{kind: sTrace, e: g.id()})
	}
	// constant arithmetic after the program's join points
	c0 := g.intVar("c0")
	switch sv.Choice("suffix", 3) {
	case 1:
		p.main = append(p.main, &zzStmt{kind: sReturn, e: xBin("+", xTern(c0, xLit(1), xLit(3)), xLit(4))})
	case 2:
		p.main = append(p.main, &zzStmt{kind: sIf, e: xTern(c0, &zzExpr{kind: eTrue}, &zzExpr{kind: eFalse}), body: []*zzStmt{{kind: sTrace, e: g.id()}}},
			&zzStmt{kind: sReturn, e: xBin("*", xLit(2), xLit(3))})
	}
	src := p.text()
	sv.Note("script", src)
	var tr1, tr2 []object.Object
	e1, err1 := zzPrepare(sv, src, g.vars, g.order, false, &tr1)
	e2, err2 := zzPrepare(sv, src, g.vars, g.order, true, &tr2)
	sv.Assert("C03.prepare_agree", (err1 == nil) == (err2 == nil))
	if err1 != nil || err2 != nil {
		return
	}
	vars := []string{"x", "w1", "w2"}
	for run := 0; run < 2; run++ {
		tr1, tr2 = nil, nil
		o1, r1 := e1.Execute(nil)
		o2, r2 := e2.Execute(nil)
		zzDescribe(sv, "opt", o1, r1)
		zzCompareTwo(sv, "C03.run", e1, e2, o1, o2, r1, r2, tr1, tr2, vars)
	}
}

// zzWalk visits every node of an AST.
func zzWalk(n ast.Node, f func(ast.Node)) {
	if n == nil {
		return
	}
	f(n)
	switch x := n.(type) {
	case *ast.Program:
		for _, s := range x.Statements {
			zzWalk(s, f)
		}
	case *ast.BlockStatement:
		if x == nil {
			return
		}
		for _, s := range x.Statements {
			zzWalk(s, f)
		}
	case *ast.ExpressionStatement:
		zzWalk(x.Expression, f)
	case *ast.ReturnStatement:
		zzWalk(x.ReturnValue, f)
	case *ast.InfixExpression:
		zzWalk(x.Left, f)
		zzWalk(x.Right, f)
	case *ast.PrefixExpression:
		zzWalk(x.Right, f)
	case *ast.IfExpression:
		zzWalk(x.Condition, f)
		zzWalk(x.Consequence, f)
		if x.Alternative != nil {
			zzWalk(x.Alternative, f)
		}
	case *ast.TernaryExpression:
		zzWalk(x.Condition, f)
		zzWalk(x.IfTrue, f)
		zzWalk(x.IfFalse, f)
	case *ast.WhileStatement:
		zzWalk(x.Condition, f)
		zzWalk(x.Body, f)
	case *ast.ForeachStatement:
		zzWalk(x.Value, f)
		zzWalk(x.Body, f)
	case *ast.AssignStatement:
		zzWalk(x.Value, f)
	case *ast.CallExpression:
		for _, a := range x.Arguments {
			zzWalk(a, f)
		}
	case *ast.ArrayLiteral:
		for _, a := range x.Elements {
			zzWalk(a, f)
		}
	case *ast.HashLiteral:
		for k, v := range x.Pairs {
			zzWalk(k, f)
			zzWalk(v, f)
		}
	case *ast.IndexExpression:
		zzWalk(x.Left, f)
		zzWalk(x.Index, f)
	case *ast.FunctionDefinition:
		zzWalk(x.Body, f)
	case *ast.SwitchExpression:
		zzWalk(x.Value, f)
		for _, c := range x.Choices {
			for _, ce := range c.Expr {
				zzWalk(ce, f)
			}
			zzWalk(c.Block, f)
		}
	}
}

// zzPrepareAST is Prepare's tail for an already parsed program (used to
// make literal values symbolic at AST level).
func zzPrepareAST(e *Eval, program *ast.Program, optimize bool) error {
	if err := e.compile(program); err != nil {
		return err
	}
	if optimize {
		e.environment.Set("OPTIMIZE", &object.Boolean{Value: true})
	}
	e.machine = vm.New(e.constants, e.instructions, e.functions, e.environment)
	e.machine.SetContext(e.context)
	return nil
}

// zzParseWithLits parses src and replaces the integer literals 7001.. by
// the given (symbolic) values.
func zzParseWithLits(sv *zzsv.T, src string, lits []int64) (*ast.Program, bool) {
	p := parser.New(lexer.New(src))
	prog, err := p.Parse()
	if err != nil {
		return nil, false
	}
	zzWalk(prog, func(n ast.Node) {
		if il, ok := n.(*ast.IntegerLiteral); ok && il.Value >= 7001 && il.Value < 7001+int64(len(lits)) {
			il.Value = lits[il.Value-7001]
		}
	})
	return prog, true
}

var zzLitTemplates = []string{
	"return 7001 + 7002;",
	"return 7001 * 7002;",
	"return 7001 - 7002;",
	"return 7001 / 7002;",
	"return (A ? 7001 : 7002) + 7003;",
	"if (7001 == 7002) { t(1); } else { t(2); } return 7001 + 7002;",
	"if (7001 != 7002) { t(1); } return 7003;",
	"x = 7001; x++; t(x); return x + 7002;",
	"switch (7001) { case 7002 { t(1); } case 7003 { t(2); } default { t(3); } } return 7001;",
	"foreach v in [7001, 7002] { t(v + 7003); } return 7003;",
	"return √7001;",
	"function f(a) { return a + 7001; } return f(7002) * 7003;",
	"if (A) { return 7001; } return 7002 + 7003;",
	"return 7001 + 7002 + 7003;",
	"return 7001 - 7002 - 7003;",
	"t(7001 * 7002); while (false) { t(7003); } return 7003 * 7001;",
	// right-nested constant arithmetic: a sub-expression that cannot be folded
	// between constants that can
	"return 7001 + ((7002 - 7003) + 7001);",
	"return 7001 - ((7002 + 7003) - 7001);",
	"if (7001 == (7002 - 7003) + 7001) { t(1); } return 7002 + (7001 - 7003);",
	"t(7001 - 7002 + 7003); return (7001 - 7002) != 7003;",
	"return 7001 + 3 * (7002 - 7003);",
	// constants of other types that print like the results of the arithmetic
	"u = \"65536\"; return 7001 * 7002;",
	"u = 65536.0; t(u); return 7001 * 7002;",
	"u = \"-2\"; return 7001 - 7002;",
	"u = \"70000\"; t(u); return 7001 + 7002;",
	"u = [\"65600\", 65600.0, /65600/]; return (7001 + 7002) == 65600;",
	// code with constants of its own that the optimizer removes, then ++ / -- on variables named afterwards
	"if (1 == 2) { t(\"dbg\", 7003, \"more\"); } x = 7001; x++; y = 7002; y--; t(x); return x + y;",
	"while (false) { t(\"never\", 7003); } function f(p) { p++; q = 7001; q--; return p + q; } return f(7002);",
	"if (false) { dead = \"d\"; dead++; } x = 7001; if (x) { x++; } else { x--; } z = 7002; z++; return x + z;",
}

// ZZ_C03_Literals: the same programs with integer literals that are
// symbolic in [0, 70000] (both sides of the inline limit 65534 and of the
// optimizer's fold limits), injected at AST level.
func ZZ_C03_Literals(sv *zzsv.T) {
	k := sv.Choice("template", len(zzLitTemplates))
	src := zzLitTemplates[k]
	sv.Note("script", src+"   (7001.. are symbolic literals)")
	var lits []int64
	if src == "return √7001;" {
		// floating-point square roots of a symbolic literal are beyond the
		// solvers' reach (unknown after 20 s): representative literals
		// around the fold conditions instead
		sq := []int64{0, 1, 2, 3, 4, 9, 10, 16, 65025, 65536, 69696, 70000}
		lits = append(lits, sq[sv.Choice("sqrtlit", len(sq))])
	}
	// products and quotients of two symbolic 64-bit values are beyond the
	// solvers within the time limit: those templates use literals <= 300
	// (products still straddle the fold limit 65534)
	hard := false
	for i := 0; i+1 < len(src); i++ {
		if src[i] == '*' || (src[i] == '/' && src[i+1] == ' ') {
			hard = true
		}
	}
	for i := len(lits); i < 3; i++ {
		l := sv.Int64("L")
		sv.Assume(l >= 0)
		if hard {
			sv.Assume(l <= 300)
		}
		sv.Assume(l <= int64(sv.Param("lit.max", 70000, 70000)))
		lits = append(lits, l)
	}
	a := sv.Int64("A")
	// known finding: a folded square root is pushed as an integer
	if src == "return √7001;" {
		var sq []bool
		for r := int64(0); r <= 265; r++ {
			sq = append(sq, lits[0] == r*r)
		}
		sv.Region("sqrt_of_perfect_square_literal", sv.Any(sq...))
	}
	var tr1, tr2 []object.Object
	mk := func(opt bool, tr *[]object.Object) (*Eval, bool) {
		prog, ok := zzParseWithLits(sv, src, lits)
		if !ok {
			return nil, false
		}
		e := New(src)
		e.AddFunction("t", func(args []object.Object) object.Object {
			*tr = append(*tr, args[0])
			return &object.Void{}
		})
		e.SetVariable("A", &object.Integer{Value: a})
		return e, zzPrepareAST(e, prog, opt) == nil
	}
	e1, ok1 := mk(true, &tr1)
	e2, ok2 := mk(false, &tr2)
	sv.Assume(ok1 && ok2)
	for run := 0; run < 2; run++ {
		tr1, tr2 = nil, nil
		o1, r1 := e1.Execute(nil)
		o2, r2 := e2.Execute(nil)
		zzDescribe(sv, "opt", o1, r1)
		zzCompareTwo(sv, "C03.lit", e1, e2, o1, o2, r1, r2, tr1, tr2, []string{"x"})
	}
}

// ZZ_C03_LongPrograms: programs longer than 256 bytes of code, so that the
// optimizer's rewriting moves jump targets across the boundaries where the
// high byte of a 16-bit operand changes: foldable statements, then padding
// of every length (two statement kinds of different size, counts chosen
// freely), then if/else, while, ternary and foreach whose conditions are
// symbolic. Optimized and unoptimized must agree.
func ZZ_C03_LongPrograms(sv *zzsv.T) {
	src := zzLongProgram(sv)
	sv.Note("script", src)
	a := sv.Int64("A")
	var tr1, tr2 []object.Object
	mk := func(noopt bool, tr *[]object.Object) *Eval {
		e := New(src)
		e.AddFunction("t", func(args []object.Object) object.Object {
			*tr = append(*tr, args[0])
			return &object.Void{}
		})
		e.SetVariable("A", &object.Integer{Value: a})
		e.SetVariable("p", &object.Integer{Value: 0})
		var flags []byte
		if noopt {
			flags = append(flags, NoOptimize)
		}
		if e.Prepare(flags) != nil {
			return nil
		}
		return e
	}
	e1, e2 := mk(false, &tr1), mk(true, &tr2)
	sv.Assert("C03.long.prepares", e1 != nil && e2 != nil)
	if e1 == nil || e2 == nil {
		return
	}
	sv.Observe("code", len(e2.instructions) > 256)
	o1, r1 := e1.Execute(nil)
	o2, r2 := e2.Execute(nil)
	zzDescribe(sv, "opt", o1, r1)
	zzCompareTwo(sv, "C03.long", e1, e2, o1, o2, r1, r2, tr1, tr2, []string{"u", "v", "n", "w", "p"})
}

func zzLongProgram(sv *zzsv.T) string {
	n1 := sv.Choice("pad.assign", sv.Param("long.pad1", 40, 80))
	n2 := sv.Choice("pad.call", 4)
	src := "u = 1 + 2; v = 3 * 4; "
	for i := 0; i < n1; i++ {
		src += "p = p + 1; "
	}
	for i := 0; i < n2; i++ {
		src += "t(p); "
	}
	return src + "if (A > 3) { t(1); } else { t(2); } n = 0; while (n < 2) { n = n + 1; t(n); } w = A ? 5 + 6 : 7; foreach x in [1, 2] { t(x + w); } return u + v + n + p;"
}

// ZZ_C03_MixedOperands: one operator between a constant and a value the
// optimizer knows nothing about (a variable of any type, a field of the host
// object) or between two constants of any literal types, embedded in a
// statement that also uses the result: optimized and unoptimized scripts
// agree on failing or not, on the value and on the host calls - in particular
// an operation the optimizer removes or rewrites ("x + 0", "x * 1", constant
// comparisons and logic) must still fail where the unoptimized one fails.
func ZZ_C03_MixedOperands(sv *zzsv.T) {
	op := zzAllBinOps[sv.Choice("op", len(zzAllBinOps))]
	provs := [][2]int{{1, 0}, {0, 1}, {0, 0}, {2, 0}, {0, 2}}
	pp := provs[sv.Choice("provenances", sv.Param("mixed.provs", 3, 5))]
	litTypes := []int{tInt, tFloat, tString, tBool, tArray, tRegexp}
	fldTypes := []int{tInt, tFloat, tString, tBool}
	pick := func(name string, prov int) int {
		switch prov {
		case 0:
			return litTypes[sv.Choice(name, len(litTypes))]
		case 2:
			return fldTypes[sv.Choice(name, len(fldTypes))]
		}
		return sv.Choice(name, nTypes)
	}
	lt := pick("ltype", pp[0])
	rt := pick("rtype", pp[1])
	forms := []string{"return X;", "t(X); return 7;", "v = X; if (v) { t(1); } return v;"}
	form := forms[sv.Choice("form", sv.Param("mixed.forms", 2, 3))]
	// integer literals take representative values (identities and absorbing
	// elements of the operators, both sides of the inline-operand limit)
	var lits []int64
	fields := map[string]interface{}{}
	vars := map[string]zv{}
	nl := sv.Param("mixed.intlits", 3, 6)
	xs, x, ok1 := zzMixOperand(sv, vars, "a", nl, lt, pp[0], &lits, fields)
	ys, y, ok2 := zzMixOperand(sv, vars, "b", nl, rt, pp[1], &lits, fields)
	sv.Assume(ok1 && ok2)
	if op == ".." && lt == tInt && rt == tInt {
		sv.Assume(y.i-x.i < 4 || y.i < x.i)
		sv.Assume(x.i > -1000000 && x.i < 1000000 && y.i > -1000000 && y.i < 1000000)
	}
	if op == "**" {
		// libm's pow on symbolic arguments is an uninterpreted function
		sv.Assume(lt != tFloat && rt != tFloat)
		if lt == tInt && rt == tInt {
			sv.Assume(y.i >= 0 && y.i <= 3 && x.i >= -300 && x.i <= 300)
		}
	}
	src := zzSubst(form, "("+xs+" "+op+" "+ys+")")
	sv.Note("script", src)
	sv.Note("types", zzTypeNames[lt]+" "+op+" "+zzTypeNames[rt])
	var obj interface{}
	if len(fields) > 0 {
		obj = fields
	}
	var tr1, tr2 []object.Object
	mk := func(opt bool, tr *[]object.Object) (*Eval, bool) {
		e := New(src)
		e.AddFunction("t", func(args []object.Object) object.Object {
			if len(args) > 0 {
				*tr = append(*tr, args[0])
			}
			return &object.Void{}
		})
		for _, n := range []string{"a", "b"} {
			if v, ok := vars[n]; ok {
				e.SetVariable(n, v.obj())
			}
		}
		prog, ok := zzParseWithLits(sv, src, lits)
		if !ok {
			return nil, false
		}
		var perr error
		okp := zzNoPanic(func() { perr = zzPrepareAST(e, prog, opt) })
		sv.Assert("C03.mixed.prepare.nopanic", okp)
		return e, okp && perr == nil
	}
	e1, p1 := mk(true, &tr1)
	e2, p2 := mk(false, &tr2)
	sv.Assume(p2)
	if !p1 {
		// the optimizer may refuse a constant expression at preparation only
		// where running it unoptimized fails as well
		_, r2 := e2.Execute(obj)
		sv.Assert("C03.mixed.prepare_error_only_for_failing_script", r2 != nil)
		return
	}
	for run := 0; run < 2; run++ {
		tr1, tr2 = nil, nil
		o1, r1 := e1.Execute(obj)
		o2, r2 := e2.Execute(obj)
		zzDescribe(sv, "opt", o1, r1)
		zzCompareTwo(sv, "C03.mixed", e1, e2, o1, o2, r1, r2, tr1, tr2, []string{"v"})
	}
}

var zzC03Unary = []string{
	"return -7001;", "return !7001;", "return -(-7001);", "return !(!7001);", "return -(7001 - 7002);",
	"return !(7001 == 7002);", "return !(7001 < 7002);", "return !(7001 && 7002);", "return !(7001 || 7002);",
	"return -(7001 + 7002) + 7001;", "return -7001 - 7002;", "return -\"s\";", "return !\"s\";", "return !\"\";",
	"return -true;", "return !true;", "return -2.5;", "return !2.5;", "return -[1];", "return ![];",
	"return √2.25;", "return √\"s\";", "return -(√2.25);", "return √(7001 - 7002);", "return !(-7001);",
	"x = -7001; t(x); return !x;", "if (!(7001 == 7002)) { t(1); } return -7002;", "return (7001 == 7002) == !(7001 != 7002);",
	"t(-7001, !7002); return 7001 - -7002;", "function f() { return -7001; } return f() + -7002;",
}

// ZZ_C03_UnaryLiterals: prefix operators over literals and constant
// sub-expressions, optimized against unoptimized.
func ZZ_C03_UnaryLiterals(sv *zzsv.T) {
	src := zzC03Unary[sv.Choice("form", len(zzC03Unary))]
	sv.Note("script", src+"   (7001, 7002 are symbolic literals)")
	l1 := sv.Int64("L1")
	l2 := sv.Int64("L2")
	sv.Assume(l1 >= 0 && l1 <= 70000 && l2 >= 0 && l2 <= 70000)
	if src == "return √(7001 - 7002);" {
		// (floating-point square roots of symbolic values are beyond the
		// solvers; differences that are perfect squares are the known finding
		// recorded for ZZ_C03_Literals and are left to that harness)
		sv.Assume((l1 == 70000 || l1 == 2) && (l2 == 0 || l2 == 7))
	}
	var tr1, tr2 []object.Object
	mk := func(opt bool, tr *[]object.Object) (*Eval, bool) {
		prog, ok := zzParseWithLits(sv, src, []int64{l1, l2})
		if !ok {
			return nil, false
		}
		e := New(src)
		e.AddFunction("t", func(args []object.Object) object.Object {
			*tr = append(*tr, args...)
			return &object.Void{}
		})
		var perr error
		okp := zzNoPanic(func() { perr = zzPrepareAST(e, prog, opt) })
		sv.Assert("C03.unary.prepare.nopanic", okp)
		return e, okp && perr == nil
	}
	e1, p1 := mk(true, &tr1)
	e2, p2 := mk(false, &tr2)
	sv.Assume(p2)
	if !p1 {
		_, r2 := e2.Execute(nil)
		sv.Assert("C03.unary.prepare_error_only_for_failing_script", r2 != nil)
		return
	}
	for run := 0; run < 2; run++ {
		tr1, tr2 = nil, nil
		o1, r1 := e1.Execute(nil)
		o2, r2 := e2.Execute(nil)
		zzDescribe(sv, "opt", o1, r1)
		zzCompareTwo(sv, "C03.unary", e1, e2, o1, o2, r1, r2, tr1, tr2, []string{"x"})
	}
}

// ZZ_C03_TailJumps: conditionals in tail position - the last statement of a
// loop body, of an if-arm that has an else, of a switch arm, of a function
// body - compile to jumps that land on other jumps; before them the program
// has constant expressions the optimizer folds away (so every later offset
// moves). Optimized and unoptimized agree, over two runs.
func ZZ_C03_TailJumps(sv *zzsv.T) {
	g := newGen(sv, 1)
	g.small = true
	p := zzTailProgram(sv, g)
	src := p.text()
	sv.Note("script", src)
	var tr1, tr2 []object.Object
	e1, err1 := zzPrepare(sv, src, g.vars, g.order, false, &tr1)
	e2, err2 := zzPrepare(sv, src, g.vars, g.order, true, &tr2)
	sv.Assert("C03.tail.prepare_agree", (err1 == nil) == (err2 == nil))
	if err1 != nil || err2 != nil {
		return
	}
	for run := 0; run < 2; run++ {
		tr1, tr2 = nil, nil
		o1, r1 := e1.Execute(nil)
		o2, r2 := e2.Execute(nil)
		zzDescribe(sv, "opt", o1, r1)
		zzCompareTwo(sv, "C03.tail", e1, e2, o1, o2, r1, r2, tr1, tr2, []string{"x", "w1"})
	}
}

// zzTailProgram builds the programs of ZZ_C03_TailJumps (also verified by
// C18 and held against the reference interpreter by C02).
func zzTailProgram(sv *zzsv.T, g *zzGen) *zzProg {
	c0 := g.intVar("c0")
	c1 := g.intVar("c1")
	var prefix []*zzStmt
	switch sv.Choice("prefix", 4) {
	case 1:
		prefix = []*zzStmt{stSet("x", xBin("+", xLit(1), xLit(2)))}
	case 2:
		prefix = []*zzStmt{stSet("x", xBin("+", xBin("+", xLit(1), xLit(2)), xLit(3))), stT(xBin("*", xLit(2), xLit(5)))}
	case 3:
		prefix = []*zzStmt{stIf(xBin("==", xLit(1), xLit(1)), stSet("x", xLit(4)))}
	}
	leaf := func() *zzStmt { return stSet("x", xBin("+", xVar("x"), g.id())) }
	var tail *zzStmt
	switch sv.Choice("tail", 5) {
	case 0:
		tail = stIf(xBin("==", c0, xLit(3)), leaf())
	case 1:
		tail = &zzStmt{kind: sIf, e: xBin("<", c0, c1), body: []*zzStmt{leaf()}, hasEl: true, els: []*zzStmt{stT(g.id())}}
	case 2: // if/else nested in the arm of an if/else
		inner := &zzStmt{kind: sIf, e: xBin("<", xLit(4), c0), body: []*zzStmt{stSet("x", xBin("+", xVar("x"), xBin("*", xLit(2), xLit(3))))}, hasEl: true, els: []*zzStmt{leaf()}}
		tail = &zzStmt{kind: sIf, e: xBin("<", xLit(2), c0), body: []*zzStmt{inner}, hasEl: true, els: []*zzStmt{leaf()}}
	case 3:
		tail = &zzStmt{kind: sSwitch, e: c0, cases: []zzCase{{exprs: []*zzExpr{xLit(1)}, body: []*zzStmt{stIf(c1, leaf())}}, {dflt: true, body: []*zzStmt{stT(g.id())}}}}
	default:
		tail = &zzStmt{kind: sExpr, e: xTern(xBin("<", c0, c1), g.id(), g.id())}
	}
	p := &zzProg{}
	switch sv.Choice("place", 4) {
	case 0: // last statement of a while body
		w := g.need("w1", func() zv {
			x := sv.Int64("w1")
			sv.Assume(x >= 0 && x <= 2)
			return zInt(x)
		})
		p.main = append(prefix, stWhile(xBin("<", w, xLit(2)), stSet("w1", xBin("+", w, xLit(1))), stT(w), tail), stT(g.id()), stRet(xVar("x")))
	case 1: // last statement of a foreach body
		p.main = append(prefix, stEach("", "v", g.iterable(), stT(xVar("v")), tail), stT(g.id()), stRet(xVar("x")))
	case 2: // last statement of a function body, called twice
		p.funcs = []*zzFunc{{name: "f", params: []string{"q"}, body: append(append([]*zzStmt{}, prefix...), stT(xVar("q")), tail)}}
		p.main = []*zzStmt{stCall("f", xLit(1)), stCall("f", c0), stT(g.id()), stRet(xVar("x"))}
	default: // last statement of the arm of an if that has an else, inside a loop
		outer := &zzStmt{kind: sIf, e: c1, body: []*zzStmt{stT(g.id()), tail}, hasEl: true, els: []*zzStmt{stT(g.id())}}
		p.main = append(prefix, stEach("", "v", g.iterable(), outer), stT(g.id()), stRet(xVar("x")))
	}
	g.need("x", func() zv { return zInt(0) })
	return p
}

// ZZ_C03_PowerLiterals: `**`, `%`, `/` and `*` between integer literals
// whose results leave the 64-bit range or hit the edge cases of the
// machine's arithmetic (bases 2, 4, 6, 10, 16, -2; exponents up to 70;
// 65534/65535): whatever the optimizer computes beforehand is what the
// machine computes at run time.
func ZZ_C03_PowerLiterals(sv *zzsv.T) {
	bases := []string{"2", "4", "6", "10", "16", "3", "65535", "(0 - 2)", "0", "1"}
	exps := []string{"64", "32", "16", "70", "63", "62", "2", "0", "1", "(0 - 1)"}
	ops := []string{"**", "%", "/", "*"}
	b := bases[sv.Choice("base", len(bases))]
	x := exps[sv.Choice("exp", len(exps))]
	op := ops[sv.Choice("op", len(ops))]
	forms := []string{"return B OP E;", "if (B OP E == 0) { t(1); } return 7;", "function f() { return B OP E; } return f() + 0;", "return (B OP E) OP B;", "x = B OP E; t(x); return x > 0;"}
	src := forms[sv.Choice("form", len(forms))]
	src = strings.ReplaceAll(strings.ReplaceAll(strings.ReplaceAll(src, "OP", op), "B", b), "E", x)
	sv.Note("script", src)
	var tr1, tr2 []object.Object
	mk := func(noopt bool, tr *[]object.Object) (*Eval, bool) {
		e, err := zzPrepare(sv, src, nil, nil, noopt, tr)
		return e, err == nil
	}
	e1, p1 := mk(false, &tr1)
	e2, p2 := mk(true, &tr2)
	sv.Assume(p2)
	if !p1 {
		_, r2 := e2.Execute(nil)
		sv.Assert("C03.power.prepare_error_only_for_failing_script", r2 != nil)
		return
	}
	for run := 0; run < 2; run++ {
		tr1, tr2 = nil, nil
		o1, r1 := e1.Execute(nil)
		o2, r2 := e2.Execute(nil)
		zzDescribe(sv, "opt", o1, r1)
		zzCompareTwo(sv, "C03.power", e1, e2, o1, o2, r1, r2, tr1, tr2, []string{"x"})
	}
}
