//go:build verif

package evalfilter

// C02 - control flow runs exactly the statements the language selects, in
// order. Programs come from the generator below; conditions, loop counters,
// switch subjects and container contents are symbolic, so one path covers
// every input that takes the same route through the script.

import (
	"strings"

	"github.com/skx/evalfilter/v2/object"
	"github.com/skx/evalfilter/v2/zzsv"
)

func init() {
	zzsv.Register("ZZ_C02_Programs", ZZ_C02_Programs)
	zzsv.Register("ZZ_C02_SwitchRegexp", ZZ_C02_SwitchRegexp)
	zzsv.Register("ZZ_C02_ConstantConditions", ZZ_C02_ConstantConditions)
	zzsv.Register("ZZ_C02_SameIterable", ZZ_C02_SameIterable)
	zzsv.Register("ZZ_C02_StatementValues", ZZ_C02_StatementValues)
	zzsv.Register("ZZ_C02_SwitchSubjects", ZZ_C02_SwitchSubjects)
	zzsv.Register("ZZ_C02_TailConditionals", ZZ_C02_TailConditionals)
	zzsv.Register("ZZ_C02_GuardedReturns", ZZ_C02_GuardedReturns)
	zzsv.Register("ZZ_C02_SwitchLookalikes", ZZ_C02_SwitchLookalikes)
}

// zzGen generates control-flow programs.
type zzGen struct {
	sv       *zzsv.T
	nextID   int64
	vars     map[string]zv // variables the program needs (symbolic payloads)
	order    []string
	maxDepth int
	loops    int
	// C03: the constAt-th condition is a constant expression of this kind
	constKind int
	constAt   int
	nconds    int
	small     bool // fewer container lengths / condition kinds
	nested    bool // generating a construct inside another one
}

func (g *zzGen) lens() int {
	if g.small {
		return 2
	}
	return 3
}

func newGen(sv *zzsv.T, maxDepth int) *zzGen {
	return &zzGen{sv: sv, vars: map[string]zv{}, maxDepth: maxDepth, nextID: 10}
}

func (g *zzGen) need(name string, mk func() zv) *zzExpr {
	if _, ok := g.vars[name]; !ok {
		g.vars[name] = mk()
		g.order = append(g.order, name)
	}
	return xVar(name)
}

func (g *zzGen) intVar(name string) *zzExpr {
	return g.need(name, func() zv { return zInt(g.sv.Int64(name)) })
}

func (g *zzGen) id() *zzExpr {
	g.nextID++
	return xLit(g.nextID)
}

// cond: a symbolic condition.
func (g *zzGen) cond() *zzExpr {
	g.nconds++
	if g.constKind > 0 && g.nconds-1 == g.constAt {
		return g.constCond(g.constKind)
	}
	nc := 3
	if g.small {
		nc = 2
	}
	switch g.sv.Choice("cond", nc) {
	case 0:
		return g.intVar("c0") // truthy iff > 0
	case 1:
		return xBin("<", g.intVar("c0"), g.intVar("c1"))
	default:
		return g.need("b0", func() zv { return zBool(g.sv.Bool("b0")) })
	}
}

func (g *zzGen) leaf() *zzStmt {
	switch g.sv.Choice("leaf", 3) {
	case 0:
		return &zzStmt{kind: sTrace, e: g.id()}
	case 1:
		return &zzStmt{kind: sReturn, e: g.id()}
	default:
		return &zzStmt{kind: sAssign, name: "x", e: g.id()}
	}
}

func (g *zzGen) body(d int) []*zzStmt {
	if d > g.maxDepth {
		return []*zzStmt{g.leaf()}
	}
	if g.sv.Choice("body.compound", 2) == 0 {
		return []*zzStmt{g.leaf()}
	}
	return []*zzStmt{g.compound(d)}
}

// iterable picks what a foreach walks over; contents are symbolic.
func (g *zzGen) iterable() *zzExpr {
	sv := g.sv
	ni := 4
	if g.nested {
		ni = 1
	}
	switch sv.Choice("iter", ni) {
	case 0:
		return g.need("arr", func() zv {
			n := sv.Choice("arr.len", g.lens())
			v := zv{t: tArray}
			for k := 0; k < n; k++ {
				v.arr = append(v.arr, zInt(sv.Int64("arr.el")))
			}
			return v
		})
	case 1:
		return g.need("str", func() zv {
			return zStr(zzASCII(sv, "str", sv.Choice("str.len", g.lens())))
		})
	case 2:
		return g.need("hsh", func() zv {
			n := sv.Choice("hsh.len", g.lens())
			v := zv{t: tHash}
			for k := 0; k < n; k++ {
				v.hk = append(v.hk, zStr([]string{"a", "b"}[k]))
				v.hv = append(v.hv, zInt(sv.Int64("hsh.el")))
			}
			return v
		})
	default:
		lo := g.need("lo", func() zv {
			l := sv.Int64("lo")
			sv.Assume(l > -100)
			sv.Assume(l < 100)
			return zInt(l)
		})
		hi := g.need("hi", func() zv {
			h := sv.Int64("hi")
			sv.Assume(h < 200)
			sv.Assume(h >= g.vars["lo"].i)
			sv.Assume(h-g.vars["lo"].i < 3)
			return zInt(h)
		})
		return &zzExpr{kind: eRange, a: lo, b: hi}
	}
}

func (g *zzGen) compound(d int) *zzStmt {
	sv := g.sv
	nk := 7
	if d >= 2 {
		// nested level: if, if/else, while, foreach over the array (every
		// construct appears as the *outer* one; bounds the product)
		nk = 5
	}
	k := sv.Choice("compound", nk)
	if d >= 2 && k >= 2 {
		k++ // skip the else-if chain at the nested level
	}
	g.nested = d >= 2
	switch k {
	case 0: // if
		return &zzStmt{kind: sIf, e: g.cond(), body: g.body(d + 1)}
	case 1: // if / else
		return &zzStmt{kind: sIf, e: g.cond(), body: g.body(d + 1), hasEl: true, els: g.body(d + 1)}
	case 2: // if / else if / else
		inner := &zzStmt{kind: sIf, e: xBin("==", g.intVar("c1"), xLit(3)), body: []*zzStmt{g.leaf()}, hasEl: true, els: []*zzStmt{g.leaf()}}
		return &zzStmt{kind: sIf, e: g.cond(), body: g.body(d + 1), hasEl: true, els: []*zzStmt{inner}, elseIf: true}
	case 3: // while with a counter: 0..3 iterations
		g.loops++
		w := "w" + string(rune('0'+g.loops))
		wv := g.need(w, func() zv {
			x := sv.Int64(w)
			sv.Assume(x >= -1)
			sv.Assume(x <= 3)
			return zInt(x)
		})
		// `for` is the same loop under another keyword
		spellFor := d < 2 && sv.Choice("for", 2) == 1
		body := append(g.body(d+1), &zzStmt{kind: sAssign, name: w, e: xBin("+", wv, xLit(1))})
		return &zzStmt{kind: sWhile, e: xBin("<", wv, xLit(2)), body: body, spellFor: spellFor}
	case 4: // foreach value
		body := append([]*zzStmt{{kind: sTrace, e: xVar("v")}}, g.body(d+1)...)
		return &zzStmt{kind: sForeach, name: "v", e: g.iterable(), body: body}
	case 5: // foreach index, value
		body := append([]*zzStmt{{kind: sTrace, e: xVar("k")}, {kind: sTrace, e: xVar("v")}}, g.body(d+1)...)
		return &zzStmt{kind: sForeach, idx: "k", name: "v", e: g.iterable(), body: body}
	default: // switch: literal case, expression cases, optional default
		subj := g.intVar("s0")
		st := &zzStmt{kind: sSwitch, e: subj}
		st.cases = append(st.cases, zzCase{exprs: []*zzExpr{xLit(1)}, body: g.body(d + 1)})
		st.cases = append(st.cases, zzCase{exprs: []*zzExpr{g.intVar("c1"), xBin("+", xLit(2), xLit(2))}, body: []*zzStmt{g.leaf()}})
		switch sv.Choice("default", 3) {
		case 1:
			st.cases = append(st.cases, zzCase{dflt: true, body: []*zzStmt{g.leaf()}})
		case 2: // default written first: still only taken when nothing matches
			st.cases = append([]zzCase{{dflt: true, body: []*zzStmt{g.leaf()}}}, st.cases...)
		}
		return st
	}
}

// program: [S1, S2] with S1 any shape and S2 a trace or a return, so that
// what runs after S1 is observed too.
func (g *zzGen) program() *zzProg {
	sv := g.sv
	p := &zzProg{}
	switch sv.Choice("first", 3) {
	case 0:
		p.main = append(p.main, g.compound(1))
	case 1:
		p.main = append(p.main, g.leaf())
	default:
		// ternary as a value
		p.main = append(p.main, &zzStmt{kind: sTrace, e: xTern(g.cond(), g.id(), g.id())})
	}
	switch sv.Choice("tail", 3) {
	case 0:
		p.main = append(p.main, &zzStmt{kind: sTrace, e: g.id()})
	case 1:
		p.main = append(p.main, &zzStmt{kind: sReturn, e: xTern(g.cond(), g.id(), g.id())})
	default:
		// a ternary as the last expression statement: its value is unused
		// and the script runs off the end (null)
		p.main = append(p.main, &zzStmt{kind: sExpr, e: xTern(g.cond(), g.id(), g.id())})
	}
	return p
}

// ZZ_C02_Programs: result, host-call sequence and final variables of every
// generated program agree with the reference interpreter, for all inputs.
func ZZ_C02_Programs(sv *zzsv.T) {
	g := newGen(sv, sv.Param("depth", 1, 2))
	p := g.program()
	src := p.text()
	sv.Note("script", src)
	noopt := sv.Param("alsoNoOptimize", 0, 0) == 1 && sv.Choice("noopt", 2) == 1
	var trace []object.Object
	e, err := zzPrepare(sv, src, g.vars, g.order, noopt, &trace)
	sv.Assert("C02.prepare", err == nil)
	if err != nil {
		return
	}
	out, rerr := e.Execute(nil)
	ref, want := zzRunRef(sv, p, g.vars, nil)
	zzDescribe(sv, "result", out, rerr)
	sv.Observe("trace", len(trace))
	zzCompareRun(sv, "C02", e, out, rerr, trace, ref, want, []string{"x", "w1", "w2"})
}

// ZZ_C02_SwitchRegexp: exactly one arm runs - the first whose case matches
// by literal, expression or regexp, otherwise the default, otherwise none.
func ZZ_C02_SwitchRegexp(sv *zzsv.T) {
	subjects := []string{"", "a", "bb", "ab", "steve", "Steve"}
	s := subjects[sv.Choice("subject", len(subjects))]
	lit := subjects[sv.Choice("literal", len(subjects))]
	hasDefault := sv.Choice("default", 2) == 1
	src := "switch (s) {\n case \"" + lit + "\" { t(1); }\n case /^b+$/ { t(2); }\n case /(?i)^ste/, other { t(3); }\n"
	if hasDefault {
		src += " default { t(4); }\n"
	}
	src += "}\nreturn 9;"
	sv.Note("script", src)
	other := zzASCII(sv, "other", sv.Choice("other.len", 3))
	var trace []object.Object
	e, err := zzPrepare(sv, src, map[string]zv{"s": zStr(s), "other": zStr(other)}, []string{"s", "other"}, false, &trace)
	sv.Assume(err == nil)
	out, rerr := e.Execute(nil)
	zzDescribe(sv, "result", out, rerr)
	sv.Assert("C02.switch.noerror", rerr == nil && zzSame(sv, out, zInt(9)))
	want := int64(0)
	switch {
	case s == lit:
		want = 1
	case s == "bb":
		want = 2
	case s == "steve" || s == "Steve" || s == other:
		want = 3
	case hasDefault:
		want = 4
	}
	if want == 0 {
		sv.Assert("C02.switch.none", len(trace) == 0)
	} else {
		sv.Assert("C02.switch.one", len(trace) == 1)
		if len(trace) == 1 {
			sv.Assert("C02.switch.arm", zzSame(sv, trace[0], zInt(want)))
		}
	}
}

// ZZ_C02_ConstantConditions: the same constructs when one condition is a
// constant expression (true, false, 1 == 1, 1 == 2, 0 != 3, (1+2) == 3): the
// language selects the same statements whether a condition is computed from
// data or spelled out.
func ZZ_C02_ConstantConditions(sv *zzsv.T) {
	g := newGen(sv, 1)
	g.small = true
	g.constKind = 1 + sv.Choice("constkind", 6)
	g.constAt = sv.Choice("constat", sv.Param("const.at", 1, 2))
	p := &zzProg{}
	p.main = append(p.main, g.compound(1))
	switch 1 + sv.Choice("tail", 2) {
	case 0:
		p.main = append(p.main, &zzStmt{kind: sTrace, e: g.id()})
	case 1:
		p.main = append(p.main, &zzStmt{kind: sTrace, e: g.id()}, &zzStmt{kind: sReturn, e: g.id()})
	default:
		p.main = append(p.main, &zzStmt{kind: sIf, e: g.cond(), body: []*zzStmt{{kind: sReturn, e: g.id()}}, hasEl: true, els: []*zzStmt{{kind: sTrace, e: g.id()}}},
			&zzStmt{kind: sReturn, e: g.id()})
	}
	src := p.text()
	sv.Note("script", src)
	var trace []object.Object
	e, err := zzPrepare(sv, src, g.vars, g.order, sv.Choice("noopt", 2) == 1, &trace)
	sv.Assert("C02.const.prepare", err == nil)
	if err != nil {
		return
	}
	out, rerr := e.Execute(nil)
	ref, want := zzRunRef(sv, p, g.vars, nil)
	zzDescribe(sv, "result", out, rerr)
	zzCompareRun(sv, "C02.const", e, out, rerr, trace, ref, want, []string{"x", "w1"})
}

// ZZ_C02_SameIterable: loops that run at the same time over the same
// container - the same variable, or two literals with the same spelling
// (which share one constant) - nested directly, through a function called
// from the outer body, or one after the other: every loop still visits every
// entry exactly once, in order.
func ZZ_C02_SameIterable(sv *zzsv.T) { zzSameIterable(sv, "C02.same") }

// (shared with C16: every entry of a container is visited exactly once)
func zzSameIterable(sv *zzsv.T, site string) {
	n := sv.Choice("len", 3) // 0..2 entries
	s := zzASCII(sv, "chars", n)
	kind := sv.Choice("container", 4) // string variable, string literal twice, array variable, range
	shape := sv.Choice("shape", 3)    // nested, via a function, sequential
	var it1, it2 string
	vars := map[string]zv{}
	var order []string
	var elems []zv
	switch kind {
	case 0:
		it1, it2 = "S", "S"
		vars["S"] = zStr(s)
		order = append(order, "S")
		for i := 0; i < n; i++ {
			elems = append(elems, zStr(s[i:i+1]))
		}
	case 1:
		// two literals with the same concrete spelling
		lit := []string{"", "x", "xy"}[n]
		it1, it2 = "\"" + lit + "\"", "\"" + lit + "\""
		for i := 0; i < n; i++ {
			elems = append(elems, zStr(lit[i:i+1]))
		}
	case 2:
		it1, it2 = "A", "A"
		av := zv{t: tArray}
		for i := 0; i < n; i++ {
			el := zInt(sv.Int64("el"))
			av.arr = append(av.arr, el)
			elems = append(elems, el)
		}
		vars["A"] = av
		order = append(order, "A")
	default:
		it1, it2 = "1.."+string(rune('0'+n)), "1.."+string(rune('0'+n))
		sv.Assume(n > 0)
		for i := 0; i < n; i++ {
			elems = append(elems, zInt(int64(i+1)))
		}
	}
	var src string
	switch shape {
	case 0:
		src = "foreach a in " + it1 + " { t(a); foreach b in " + it2 + " { t(b); } } return 7;"
	case 1:
		src = "function inner() { foreach b in " + it2 + " { t(b); } return 0; } foreach a in " + it1 + " { t(a); inner(); } return 7;"
	default:
		src = "foreach a in " + it1 + " { t(a); } foreach b in " + it2 + " { t(b); } return 7;"
	}
	sv.Note("script", src)
	var trace []object.Object
	e, err := zzPrepare(sv, src, vars, order, sv.Choice("noopt", 2) == 1, &trace)
	sv.Assume(err == nil)
	out, rerr := e.Execute(nil)
	zzDescribe(sv, "result", out, rerr)
	sv.Assert(site+".noerror", rerr == nil && zzSame(sv, out, zInt(7)))
	var want []zv
	if shape == 2 {
		want = append(append(want, elems...), elems...)
	} else {
		for _, a := range elems {
			want = append(want, a)
			want = append(want, elems...)
		}
	}
	sv.Assert(site+".visits", len(trace) == len(want))
	if len(trace) == len(want) {
		for i := range want {
			sv.Assert(site+".entry", zzSame(sv, trace[i], want[i]))
		}
	}
}

// ZZ_C02_StatementValues: a statement that is just an expression - a call
// whose result is not used, a literal, an operator expression - changes
// nothing about the control flow around it, in every kind of body.
func ZZ_C02_StatementValues(sv *zzsv.T) {
	stmts := []string{"f(a);", "5;", "len(A);", "a + 1;", "A;", "\"s\";", "f(a) == 1;", "a ? 1 : 2;", "t(0) ; f(a);"}
	st := stmts[sv.Choice("statement", len(stmts))]
	bodies := []string{
		"foreach a in A { t(a); STMT } return 7;",
		"foreach a in A { STMT t(a); } return 7;",
		"foreach i, a in A { if (a == a) { STMT } t(a); } return 7;",
		"foreach a in A { foreach b in A { STMT } t(a); } return 7;",
		"function g(p) { foreach a in p { STMT t(a); } return 1; } u = g(A); return 7;",
		"foreach a in A { switch (a) { case 1 { STMT } default { STMT } } t(a); } return 7;",
		"k = 0; while (k < len(A)) { a = A[k]; STMT t(a); k = k + 1; } return 7;",
		"foreach a in A { t(a); STMT } foreach a in A { STMT t(a); } return 7;",
		// the statement comes before the loop, and the loop's body calls a
		// function that runs a loop of its own
		"STMT foreach a in A { h(A); t(a); } return 7;",
		"STMT foreach a in A { t(a); u = h(A); } return 7;",
		"if (len(A) >= 0) { STMT foreach a in A { t(a); h(A); } } return 7;",
		"function w(p) { STMT foreach a in p { h(p); t(a); } return 1; } u = w(A); return 7;",
		"STMT STMT foreach i, a in A { foreach b in A { h(A); } t(a); } return 7;",
	}
	b := sv.Choice("body", len(bodies))
	src := "function f(x) { return x; } function h(p) { foreach q in p { z = q; } return 1; } "
	// (statements that mention the loop variable are placed before the loop
	// in the last five bodies: there they read the global `a`)
	for i := 0; i < len(bodies[b]); i++ {
		if i+4 <= len(bodies[b]) && bodies[b][i:i+4] == "STMT" {
			src += st
			i += 3
		} else {
			src += string(bodies[b][i])
		}
	}
	sv.Note("script", src)
	n := sv.Choice("len", 3)
	av := zv{t: tArray}
	for i := 0; i < n; i++ {
		av.arr = append(av.arr, zInt(sv.Int64("el")))
	}
	var trace []object.Object
	e, err := zzPrepare(sv, src, map[string]zv{"A": av, "a": zInt(1)}, []string{"A", "a"}, sv.Choice("noopt", 2) == 1, &trace)
	sv.Assume(err == nil)
	out, rerr := e.Execute(nil)
	zzDescribe(sv, "result", out, rerr)
	sv.Assert("C02.stmt.noerror", rerr == nil && zzSame(sv, out, zInt(7)))
	// the calls t(a), one per element (twice for the last body), apart from
	// the statement's own t(0)
	var got []object.Object
	for _, o := range trace {
		if i, ok := o.(*object.Integer); ok && st == "t(0) ; f(a);" && i.Value == 0 {
			// (an element may itself be 0: then the counts below still decide)
			continue
		}
		got = append(got, o)
	}
	want := n
	if b == 7 {
		want = 2 * n
	}
	if st != "t(0) ; f(a);" {
		sv.Assert("C02.stmt.visits", len(got) == want)
		if len(got) == want {
			for i := range got {
				sv.Assert("C02.stmt.entry", zzSame(sv, got[i], av.arr[i%n]))
			}
		}
	} else {
		sv.Assert("C02.stmt.visits", len(trace) >= want)
	}
}

// ZZ_C02_SwitchSubjects: the subject of a switch need not be a string:
// integers, floats and booleans select the arm whose literal or expression
// equals them (same type), and a regexp arm is tried on the subject's
// printed form; the first matching arm runs, otherwise the default,
// otherwise none.
func ZZ_C02_SwitchSubjects(sv *zzsv.T) {
	type subj struct {
		v       zv
		printed string
	}
	subjects := []subj{
		{zInt(404), "404"}, {zInt(7), "7"}, {zInt(-40), "-40"}, {zFloat(4.5), "4.5"}, {zFloat(40), "40"},
		{zBool(true), "true"}, {zBool(false), "false"}, {zStr("404"), "404"}, {zStr("x"), "x"},
	}
	s := subjects[sv.Choice("subject", len(subjects))]
	k := sv.Int64("K")
	sv.Assume(k >= 0 && k <= 500)
	hasDefault := sv.Choice("default", 2) == 1
	src := "switch (s) {\n case \"x\" { t(1); }\n case K, 7 { t(2); }\n case /^4/ { t(3); }\n case /true|^-/ { t(4); }\n case 4.5, false { t(5); }\n"
	if hasDefault {
		src += " default { t(6); }\n"
	}
	src += "}\nreturn 9;"
	sv.Note("script", src)
	var trace []object.Object
	e, err := zzPrepare(sv, src, map[string]zv{"s": s.v, "K": zInt(k)}, []string{"s", "K"}, sv.Choice("noopt", 2) == 1, &trace)
	sv.Assume(err == nil)
	out, rerr := e.Execute(nil)
	zzDescribe(sv, "result", out, rerr)
	sv.Assert("C02.subjects.noerror", rerr == nil && zzSame(sv, out, zInt(9)))
	want := int64(0)
	switch {
	case s.v.t == tString && s.v.s == "x":
		want = 1
	case s.v.t == tInt && (s.v.i == k || s.v.i == 7):
		want = 2
	case s.printed[0] == '4':
		want = 3
	case s.printed == "true" || s.printed[0] == '-':
		want = 4
	case (s.v.t == tFloat && s.v.f == 4.5) || (s.v.t == tBool && !s.v.b):
		want = 5
	case hasDefault:
		want = 6
	}
	if want == 0 {
		sv.Assert("C02.subjects.none", len(trace) == 0)
	} else {
		sv.Assert("C02.subjects.one", len(trace) == 1)
		if len(trace) == 1 {
			sv.Assert("C02.subjects.arm", zzSame(sv, trace[0], zInt(want)))
		}
	}
}

// ZZ_C02_TailConditionals: conditionals as the last statement of a loop
// body, of an if-arm, of a switch arm and of a function body, after
// statements made of constants: the statements that run, in order, are the
// reference interpreter's.
func ZZ_C02_TailConditionals(sv *zzsv.T) {
	g := newGen(sv, 1)
	g.small = true
	p := zzTailProgram(sv, g)
	src := p.text()
	sv.Note("script", src)
	var trace []object.Object
	e, err := zzPrepare(sv, src, g.vars, g.order, sv.Choice("noopt", 2) == 1, &trace)
	sv.Assert("C02.tail.prepare", err == nil)
	if err != nil {
		return
	}
	out, rerr := e.Execute(nil)
	ref, want := zzRunRef(sv, p, g.vars, nil)
	zzDescribe(sv, "result", out, rerr)
	zzCompareRun(sv, "C02.tail", e, out, rerr, trace, ref, want, []string{"x", "w1"})
}

// ZZ_C02_GuardedReturns: blocks that end in a conditional whose arms all
// return - but which may also be passed without returning: the then-arm of an
// if/else, an arm of a switch followed by other arms and a default, an
// else-if chain without a final else, a loop body. What runs afterwards is
// what the language selects (never the else-arm, a second arm or the default
// as well).
func ZZ_C02_GuardedReturns(sv *zzsv.T) {
	g := newGen(sv, 1)
	g.small = true
	c0 := g.intVar("c0")
	c1 := g.intVar("c1")
	c2 := g.intVar("c2")
	ret := func() *zzStmt { return stRet(g.id()) }
	var guard *zzStmt
	switch sv.Choice("guard", 4) {
	case 0: // if without else
		guard = stIf(xBin("<", c1, xLit(0)), ret())
	case 1: // else-if chain without a final else, every arm returns
		inner := stIf(xBin("==", c1, xLit(2)), ret())
		guard = &zzStmt{kind: sIf, e: xBin("==", c1, xLit(1)), body: []*zzStmt{ret()}, hasEl: true, els: []*zzStmt{inner}, elseIf: true}
	case 2: // if/else whose arms both return, inside an if without else
		both := &zzStmt{kind: sIf, e: xBin("<", c2, xLit(5)), body: []*zzStmt{ret()}, hasEl: true, els: []*zzStmt{ret()}}
		guard = stIf(xBin("<", c1, xLit(0)), both)
	default: // a switch whose arms return, without default
		guard = &zzStmt{kind: sSwitch, e: c1, cases: []zzCase{{exprs: []*zzExpr{xLit(1)}, body: []*zzStmt{ret()}}, {exprs: []*zzExpr{xLit(2), xLit(3)}, body: []*zzStmt{ret()}}}}
	}
	p := &zzProg{}
	after := []*zzStmt{stT(g.id()), stRet(xVar("x"))}
	switch sv.Choice("place", 5) {
	case 0: // then-arm of an if that has an else
		p.main = append([]*zzStmt{{kind: sIf, e: xBin("<", xLit(0), c0), body: []*zzStmt{stT(g.id()), guard}, hasEl: true, els: []*zzStmt{stT(g.id()), stSet("x", g.id())}}}, after...)
	case 1: // an arm of a switch that has further arms and a default
		sw := &zzStmt{kind: sSwitch, e: c0, cases: []zzCase{
			{exprs: []*zzExpr{xLit(1)}, body: []*zzStmt{stT(g.id()), guard}},
			{exprs: []*zzExpr{xLit(1), xLit(2)}, body: []*zzStmt{stT(g.id())}},
			{dflt: true, body: []*zzStmt{stT(g.id()), stSet("x", g.id())}}}}
		p.main = append([]*zzStmt{sw}, after...)
	case 2: // the else-arm
		p.main = append([]*zzStmt{{kind: sIf, e: xBin("<", xLit(0), c0), body: []*zzStmt{stT(g.id())}, hasEl: true, els: []*zzStmt{guard}}}, after...)
	case 3: // a loop body
		p.main = append([]*zzStmt{stEach("", "v", g.iterable(), stT(xVar("v")), guard)}, after...)
	default: // a function body with an else after it in the caller
		p.funcs = []*zzFunc{{name: "f", params: []string{"q"}, body: []*zzStmt{{kind: sIf, e: xBin("<", xLit(0), xVar("q")), body: []*zzStmt{guard}, hasEl: true, els: []*zzStmt{stT(g.id())}}, stT(g.id())}}}
		p.main = append([]*zzStmt{stSet("r", xCall("f", c0)), stT(xVar("r"))}, after...)
	}
	g.need("x", func() zv { return zInt(0) })
	src := p.text()
	sv.Note("script", src)
	var trace []object.Object
	e, err := zzPrepare(sv, src, g.vars, g.order, sv.Choice("noopt", 2) == 1, &trace)
	sv.Assert("C02.guarded.prepare", err == nil)
	if err != nil {
		return
	}
	out, rerr := e.Execute(nil)
	ref, want := zzRunRef(sv, p, g.vars, nil)
	zzDescribe(sv, "result", out, rerr)
	if p.funcs != nil && ref.failed {
		// (a function that ends without return used as a value: outside the definition)
		sv.Reach("C02.guarded.unspec")
		return
	}
	zzCompareRun(sv, "C02.guarded", e, out, rerr, trace, ref, want, []string{"x", "r"})
}

// ZZ_C02_SwitchLookalikes: a switch whose subject variable, string arm and
// regexp arm are all spelled the same (`ab`, "ab", /ab/) - and a second
// regexp spelled like a function name: each arm keeps its own way of
// matching (equality for the string, a search for the regexp) whatever else
// in the script is written with the same letters, in either order of arms.
func ZZ_C02_SwitchLookalikes(sv *zzsv.T) {
	subj := zzOver(sv, "ab", sv.Choice("len", 4), "abx")
	other := zzOver(sv, "other", sv.Choice("olen", 3), "abx")
	var src string
	order := sv.Choice("order", 3)
	switch order {
	case 0:
		src = "switch (ab) { case \"ab\" { t(1); } case /ab/ { t(2); } case other { t(3); } case /len/ { t(5); } default { t(4); } } return len(ab);"
	case 1:
		src = "switch (ab) { case /ab/ { t(2); } case \"ab\" { t(1); } case other { t(3); } default { t(4); } } return len(ab);"
	default:
		src = "x = \"ab\"; r = /x/; switch (ab) { case \"x\" { t(1); } case /x/ { t(2); } case other { t(3); } default { t(4); } } return len(ab);"
	}
	sv.Note("script", src)
	var trace []object.Object
	e, err := zzPrepare(sv, src, map[string]zv{"ab": zStr(subj), "other": zStr(other)}, []string{"ab", "other"}, sv.Choice("noopt", 2) == 1, &trace)
	sv.Assume(err == nil)
	out, rerr := e.Execute(nil)
	zzDescribe(sv, "result", out, rerr)
	sv.Assert("C02.lookalikes.noerror", rerr == nil && zzSame(sv, out, zInt(int64(len(subj)))))
	want := int64(4)
	switch order {
	case 0:
		switch {
		case subj == "ab":
			want = 1
		case strings.Contains(subj, "ab"):
			want = 2
		case subj == other:
			want = 3
		}
	case 1:
		switch {
		case strings.Contains(subj, "ab"):
			want = 2
		case subj == other:
			want = 3
		}
	default:
		switch {
		case subj == "x":
			want = 1
		case strings.Contains(subj, "x"):
			want = 2
		case subj == other:
			want = 3
		}
	}
	sv.Assert("C02.lookalikes.one", len(trace) == 1)
	if len(trace) == 1 {
		sv.Assert("C02.lookalikes.arm", zzSame(sv, trace[0], zInt(want)))
	}
}
