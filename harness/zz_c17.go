//go:build verif

package evalfilter

// C17 - built-in functions keep their documented contracts.

import (
	"os"
	"regexp"
	"strconv"
	"strings"
	"time"

	"github.com/skx/evalfilter/v2/object"
	"github.com/skx/evalfilter/v2/zzsv"
)

func init() {
	zzsv.Register("ZZ_C17_MinMax", ZZ_C17_MinMax)
	zzsv.Register("ZZ_C17_Between", ZZ_C17_Between)
	zzsv.Register("ZZ_C17_MinMaxWide", ZZ_C17_MinMaxWide)
	zzsv.Register("ZZ_C17_BetweenWide", ZZ_C17_BetweenWide)
	zzsv.Register("ZZ_C17_Sort", ZZ_C17_Sort)
	zzsv.Register("ZZ_C17_SplitJoin", ZZ_C17_SplitJoin)
	zzsv.Register("ZZ_C17_Convert", ZZ_C17_Convert)
	zzsv.Register("ZZ_C17_Arity", ZZ_C17_Arity)
	zzsv.Register("ZZ_C17_Time", ZZ_C17_Time)
	zzsv.Register("ZZ_C17_ReplaceMatch", ZZ_C17_ReplaceMatch)
	zzsv.Register("ZZ_C17_TimeConcrete", ZZ_C17_TimeConcrete)
}

var zzNumFloats = []float64{0.5, -2.5, 10, 100.25, 9, 1e21}

func zzNumFloat(sv *zzsv.T, name string) float64 {
	return zzNumFloats[sv.Choice(name, sv.Param("num.floats", 4, len(zzNumFloats)))]
}

// zzNumber: an integer in [-9999, 99999] (the printed-form model needs a
// digit bound) or a float from a concrete set.
func zzNumber(sv *zzsv.T, name string) zv {
	if sv.Choice(name+".isfloat", 2) == 0 {
		i := sv.Int64(name)
		if !zzWideInts {
			sv.Assume(i >= int64(-sv.Param("num.lo", 99, 9999)))
			sv.Assume(i <= int64(sv.Param("num.hi", 999, 99999)))
		}
		return zInt(i)
	}
	return zFloat(zzNumFloat(sv, name+".f"))
}

func zzNumLess(a, b zv) bool {
	if a.t == tInt && b.t == tInt {
		return a.i < b.i
	}
	return zzAsFloat(a) < zzAsFloat(b)
}

func zzNumEq(a, b zv) bool {
	if a.t == tInt && b.t == tInt {
		return a.i == b.i
	}
	return zzAsFloat(a) == zzAsFloat(b)
}

// zzWideInts: integers range over all of int64 (no digit bound). Comparisons
// by printed form would then be beyond the decimal model, so each numeric
// harness runs twice: digit-bounded and wide.
var zzWideInts bool

func ZZ_C17_MinMaxWide(sv *zzsv.T) {
	zzWideInts = true
	defer func() { zzWideInts = false }()
	ZZ_C17_MinMax(sv)
}

func ZZ_C17_BetweenWide(sv *zzsv.T) {
	zzWideInts = true
	defer func() { zzWideInts = false }()
	ZZ_C17_Between(sv)
}

// ZZ_C17_MinMax: min/max return the numerically smaller/larger argument.
func ZZ_C17_MinMax(sv *zzsv.T) {
	fn := []string{"min", "max"}[sv.Choice("fn", 2)]
	a := zzNumber(sv, "a")
	b := zzNumber(sv, "b")
	e := New("return " + fn + "(a, b);")
	sv.Note("script", e.Script)
	e.SetVariable("a", a.obj())
	e.SetVariable("b", b.obj())
	sv.Assume(e.Prepare() == nil)
	out, err := e.Execute(nil)
	zzDescribe(sv, "result", out, err)
	sv.Assert("C17.minmax.noerror", err == nil)
	if err != nil {
		return
	}
	switch {
	case zzNumEq(a, b):
		sv.Assert("C17.minmax.equal", zzSame(sv, out, a) || zzSame(sv, out, b))
	case zzNumLess(a, b) == (fn == "min"):
		sv.Assert("C17.minmax.value", zzSame(sv, out, a))
	default:
		sv.Assert("C17.minmax.value", zzSame(sv, out, b))
	}
}

// ZZ_C17_Between: between(v, lo, hi) is true exactly when lo <= v <= hi.
func ZZ_C17_Between(sv *zzsv.T) {
	v := zzNumber(sv, "v")
	lo := zzNumber(sv, "lo")
	hi := zzNumber(sv, "hi")
	e := New("return between(v, lo, hi);")
	sv.Note("script", e.Script)
	e.SetVariable("v", v.obj())
	e.SetVariable("lo", lo.obj())
	e.SetVariable("hi", hi.obj())
	sv.Assume(e.Prepare() == nil)
	out, err := e.Execute(nil)
	zzDescribe(sv, "result", out, err)
	want := !zzNumLess(v, lo) && !zzNumLess(hi, v)
	sv.Assert("C17.between", err == nil && zzSame(sv, out, zBool(want)))
}

func zzPrinted(v zv) string {
	switch v.t {
	case tInt:
		return strconv.FormatInt(v.i, 10)
	case tString:
		return v.s
	}
	return "?"
}

// ZZ_C17_Sort: sort/reverse return an ordered permutation (by printed form,
// optionally case-folded) and leave the input unchanged.
func ZZ_C17_Sort(sv *zzsv.T) {
	fn := []string{"sort", "reverse"}[sv.Choice("fn", 2)]
	fold := sv.Choice("fold", 3) // 0: no flag, 1: false, 2: true
	n := sv.Choice("n", sv.Param("sort.maxlen", 2, 3)+1)
	var els []zv
	in := &object.Array{Elements: []object.Object{}}
	for k := 0; k < n; k++ {
		var el zv
		switch sv.Choice("el.kind", 3) {
		case 1:
			i := sv.Int64("el")
			sv.Assume(i >= -99)
			sv.Assume(i <= 999)
			el = zInt(i)
		case 2:
			// floats whose printed forms coincide with integers and strings
			el = zFloat([]float64{1, 2, 1.5}[sv.Choice("el.float", 3)])
		default:
			// letters of both cases so that case folding matters, and a digit
			// so that a string can print like a number
			s := sv.String("el", sv.Choice("el.len", sv.Param("sort.strlen", 1, 2)+1))
			for j := 0; j < len(s); j++ {
				sv.Assume(s[j] == 'a' || s[j] == 'B' || s[j] == 'b' || s[j] == 'C' || s[j] == '1')
			}
			el = zStr(s)
		}
		els = append(els, el)
		in.Elements = append(in.Elements, el.obj())
	}
	src := "return " + fn + "(a"
	if fold == 1 {
		src += ", false"
	} else if fold == 2 {
		src += ", true"
	}
	src += ");"
	e := New(src)
	sv.Note("script", src)
	e.SetVariable("a", in)
	sv.Assume(e.Prepare() == nil)
	out, err := e.Execute(nil)
	zzDescribe(sv, "result", out, err)
	arr, ok := out.(*object.Array)
	sv.Assert("C17.sort.returns_array", err == nil && ok && len(arr.Elements) == n)
	if err != nil || !ok || len(arr.Elements) != n {
		return
	}
	// input unchanged
	for k := 0; k < n; k++ {
		sv.Assert("C17.sort.input_unchanged", zzSame(sv, in.Elements[k], els[k]))
	}
	// ordered
	key := func(o object.Object) string {
		s := o.Inspect()
		if fold == 2 {
			s = strings.ToLower(s)
		}
		return s
	}
	for k := 0; k+1 < n; k++ {
		a, b := key(arr.Elements[k]), key(arr.Elements[k+1])
		if fn == "sort" {
			sv.Assert("C17.sort.ordered", a <= b)
		} else {
			sv.Assert("C17.sort.ordered", a >= b)
		}
	}
	// permutation: some assignment of outputs to inputs matches payloads
	perms := [][]int{{}}
	switch n {
	case 1:
		perms = [][]int{{0}}
	case 2:
		perms = [][]int{{0, 1}, {1, 0}}
	case 3:
		perms = [][]int{{0, 1, 2}, {0, 2, 1}, {1, 0, 2}, {1, 2, 0}, {2, 0, 1}, {2, 1, 0}}
	case 4:
		perms = nil
		for a := 0; a < 4; a++ {
			for b := 0; b < 4; b++ {
				for c := 0; c < 4; c++ {
					for d := 0; d < 4; d++ {
						if a != b && a != c && a != d && b != c && b != d && c != d {
							perms = append(perms, []int{a, b, c, d})
						}
					}
				}
			}
		}
	}
	var anyp []bool
	for _, pm := range perms {
		var all []bool
		for k, src := range pm {
			all = append(all, zzSame(sv, arr.Elements[k], els[src]))
		}
		anyp = append(anyp, sv.All(all...))
	}
	sv.Assert("C17.sort.permutation", sv.Any(anyp...))
}

// ZZ_C17_SplitJoin: join(split(s, d), d) is s.
func ZZ_C17_SplitJoin(sv *zzsv.T) {
	alpha := func(name string, n int) string {
		s := sv.String(name, n)
		for j := 0; j < len(s); j++ {
			sv.Assume(s[j] == 'a' || s[j] == ',' || s[j] == ' ')
		}
		return s
	}
	s := alpha("s", sv.Choice("s.len", sv.Param("split.maxlen", 3, 4)+1))
	d := alpha("d", sv.Choice("d.len", 3))
	e := New("return join(split(s, d), d);")
	sv.Note("script", e.Script)
	e.SetVariable("s", &object.String{Value: s})
	e.SetVariable("d", &object.String{Value: d})
	sv.Assume(e.Prepare() == nil)
	out, err := e.Execute(nil)
	zzDescribe(sv, "result", out, err)
	sv.Assert("C17.splitjoin", err == nil && zzSame(sv, out, zStr(s)))
}

// ZZ_C17_Convert: len, lower, upper, trim, string, int, type behave as
// documented (on the printed form) for strings and integers.
func ZZ_C17_Convert(sv *zzsv.T) {
	fns := []string{"lower", "upper", "trim", "string", "int", "type", "len", "float"}
	fn := fns[sv.Choice("fn", len(fns))]
	var arg zv
	printedArr := ""
	at := sv.Choice("argtype", 7)
	// (float() parses text: symbolic bytes would be enumerated string by
	// string - the concrete texts of case 5 stand in for them)
	sv.Assume(!(fn == "float" && at == 0))
	switch at {
	case 4: // floats: representative values (their printed forms are the subject)
		fl := []float64{2.5, -0.5, 100, 1e21, 0}
		arg = zFloat(fl[sv.Choice("f", len(fl))])
	case 5: // numeric and non-numeric text for the conversions
		txt := []string{"3.5", "1e3", "-2", " 1", "0x10", "Inf", "abc", "12abc", "+7", "1_0", ".5", "9223372036854775808"}
		arg = zStr(txt[sv.Choice("txt", len(txt))])
	case 6: // an array: converted through its printed form, counted by elements
		i := []int64{7, -12}[sv.Choice("el", 2)]
		arg = zArr(zInt(i), zStr("Ab"))
		printedArr = "[" + strconv.FormatInt(i, 10) + ", Ab]"
	case 0:
		s := sv.String("s", sv.Choice("s.len", sv.Param("conv.maxlen", 2, 3)+1))
		for j := 0; j < len(s); j++ {
			sv.Assume(s[j] == 'a' || s[j] == 'Z' || s[j] == ' ' || s[j] == '7' || s[j] == '-')
		}
		arg = zStr(s)
	case 1:
		i := sv.Int64("i")
		sv.Assume(i >= -999)
		sv.Assume(i <= 9999)
		if fn == "float" {
			// (the text-to-float conversion is evaluated value by value)
			sv.Assume(i >= -2 && i <= 12)
		}
		arg = zInt(i)
	case 2:
		arg = zBool(sv.Bool("b"))
	default:
		arg = zNull()
	}
	e := New("return " + fn + "(x);")
	sv.Note("script", e.Script)
	sv.Note("types", zzTypeNames[arg.t])
	e.SetVariable("x", arg.obj())
	sv.Assume(e.Prepare() == nil)
	out, err := e.Execute(nil)
	zzDescribe(sv, "result", out, err)
	sv.Assert("C17.convert.noerror", err == nil)
	if err != nil {
		return
	}
	printed := ""
	switch arg.t {
	case tString:
		printed = arg.s
	case tInt:
		printed = strconv.FormatInt(arg.i, 10)
	case tBool:
		printed = "false"
		if arg.b {
			printed = "true"
		}
	case tNull:
		printed = "null"
	case tFloat:
		printed = strconv.FormatFloat(arg.f, 'f', -1, 64)
	case tArray:
		printed = printedArr
	}
	switch fn {
	case "float":
		f, perr := strconv.ParseFloat(printed, 64)
		if arg.t == tInt {
			// (the conversion of a symbolic integer's decimal form is exact
			// below 2^53)
			f, perr = float64(arg.i), nil
		}
		if perr != nil {
			sv.Assert("C17.convert.float.null", zzSame(sv, out, zNull()))
		} else {
			sv.Assert("C17.convert.float.value", zzSame(sv, out, zFloat(f)))
		}
	case "lower":
		sv.Assert("C17.convert.lower", zzSame(sv, out, zStr(strings.ToLower(printed))))
	case "upper":
		sv.Assert("C17.convert.upper", zzSame(sv, out, zStr(strings.ToUpper(printed))))
	case "trim":
		sv.Assert("C17.convert.trim", zzSame(sv, out, zStr(strings.TrimSpace(printed))))
	case "string":
		sv.Assert("C17.convert.string", zzSame(sv, out, zStr(printed)))
	case "type":
		sv.Assert("C17.convert.type", zzSame(sv, out, zStr(zzTypeNames[arg.t])))
	case "len":
		if arg.t == tArray {
			sv.Assert("C17.convert.len", zzSame(sv, out, zInt(int64(len(arg.arr)))))
		} else {
			sv.Assert("C17.convert.len", zzSame(sv, out, zInt(int64(len([]rune(printed))))))
		}
	case "int":
		n, perr := strconv.ParseInt(printed, 10, 64)
		if perr != nil {
			sv.Assert("C17.convert.int.null", zzSame(sv, out, zNull()))
		} else {
			sv.Assert("C17.convert.int.value", zzSame(sv, out, zInt(n)))
		}
	}
}

type zzArity struct {
	name   string
	ok     []int // accepted argument counts (nil = any)
	onBad  int   // tNull or tBool(false)
}

var zzArities = []zzArity{
	{"between", []int{3}, tNull}, {"float", []int{1}, tNull}, {"getenv", []int{1}, tNull},
	{"int", []int{1}, tNull}, {"join", []int{2}, tNull}, {"keys", []int{1}, tNull},
	{"len", []int{1}, tNull}, {"lower", []int{1}, tNull}, {"match", []int{2}, tBool},
	{"max", []int{2}, tNull}, {"min", []int{2}, tNull}, {"replace", []int{3}, tNull},
	{"reverse", []int{1, 2}, tNull}, {"sort", []int{1, 2}, tNull}, {"split", []int{2}, tNull},
	{"string", []int{1}, tNull}, {"trim", []int{1}, tNull}, {"type", []int{1}, tNull},
	{"upper", []int{1}, tNull}, {"hour", []int{1}, tNull}, {"minute", []int{1}, tNull},
	{"seconds", []int{1}, tNull}, {"day", []int{1}, tNull}, {"month", []int{1}, tNull},
	{"year", []int{1}, tNull}, {"weekday", []int{1}, tNull}, {"sprintf", []int{1, 2, 3, 4}, tNull},
}

// (the time built-ins get a concrete instant here: on symbolic instants the
// calendar functions are uninterpreted and their values cannot be observed;
// ZZ_C17_Time covers them)
var symInts = map[string]bool{"between": true, "min": true, "max": true, "type": true, "keys": true}

// ZZ_C17_Arity: a wrong argument count yields null (false for match); any
// argument types return normally - never a crash.
func ZZ_C17_Arity(sv *zzsv.T) {
	a := zzArities[sv.Choice("fn", len(zzArities))]
	n := sv.Choice("nargs", 5)
	e := New("")
	src := "return " + a.name + "("
	names := []string{"p0", "p1", "p2", "p3"}
	t := 0
	for k := 0; k < n; k++ {
		// argument types: independent for the first two arguments, the
		// remaining ones repeat the second's type (bounds the product)
		if k < sv.Param("arity.indeptypes", 1, 2) {
			t = sv.Choice("argtype", nTypes)
		}
		// payloads: symbolic integers where the built-in computes with the
		// number; fixed representatives elsewhere (arity and type are the
		// subject here, and text-parsing built-ins would enumerate bytes).
		var v zv
		switch t {
		case tInt:
			if symInts[a.name] {
				i := sv.Int64(names[k])
				sv.Assume(i >= -99)
				sv.Assume(i <= 999)
				v = zInt(i)
			} else {
				v = zInt(7)
			}
		case tFloat:
			v = zFloat(1.5)
		case tString:
			v = zStr("a,b")
		case tBool:
			v = zBool(true)
		case tNull:
			v = zNull()
		case tArray:
			v = zArr(zInt(2), zInt(1))
		case tHash:
			v = zv{t: tHash, hk: []zv{zStr("k")}, hv: []zv{zInt(1)}}
		default:
			v = zv{t: tRegexp, s: "a"}
		}
		e.SetVariable(names[k], v.obj())
		if k > 0 {
			src += ", "
		}
		src += names[k]
	}
	src += ");"
	e.Script = src
	sv.Note("script", src)
	sv.Assume(e.Prepare() == nil)
	var out object.Object
	var err error
	okRun := zzNoPanic(func() { out, err = e.Execute(nil) })
	sv.Assert("C17.arity.nopanic", okRun)
	if !okRun {
		return
	}
	zzDescribe(sv, "result", out, err)
	// getenv of a symbolic name has no model in the engine
	sv.Assume(!(a.name == "getenv" && n == 1))
	good := false
	for _, k := range a.ok {
		if k == n {
			good = true
		}
	}
	if !good {
		sv.Assert("C17.arity.noerror", err == nil)
		if err == nil {
			if a.onBad == tBool {
				sv.Assert("C17.arity.false", zzSame(sv, out, zBool(false)))
			} else {
				sv.Assert("C17.arity.null", zzSame(sv, out, zNull()))
			}
		}
	} else {
		sv.Assert("C17.types.noerror", err == nil)
	}
}

// ZZ_C17_Time: hour/minute/seconds/day/month/year/weekday decompose an
// instant exactly as the host's time library does in the configured zone.
func ZZ_C17_Time(sv *zzsv.T) {
	fns := []string{"hour", "minute", "seconds", "day", "month", "year", "weekday"}
	fn := fns[sv.Choice("fn", len(fns))]
	zones := []string{"", "UTC", "Europe/Helsinki", "America/New_York", "Bogus/Zone"}
	tz := zones[sv.Choice("tz", len(zones))]
	sv.Setenv("TZ", tz)
	v := sv.Int64("instant")
	sv.Assume(v >= 0)
	sv.Assume(v <= 4102444800) // 1970 .. 2100
	e := New("return " + fn + "(v);")
	sv.Note("script", e.Script)
	sv.Note("TZ", tz)
	e.SetVariable("v", &object.Integer{Value: v})
	sv.Assume(e.Prepare() == nil)
	out, err := e.Execute(nil)
	// (the value is not observed: for symbolic instants the calendar
	// functions are uninterpreted in the engine)
	sv.Observe("err", err != nil)
	// oracle: the host's time library in the configured zone
	name := os.Getenv("TZ")
	if name == "" {
		name = "UTC"
	}
	ts := time.Unix(v, 0)
	if loc, lerr := time.LoadLocation(name); lerr == nil {
		ts = ts.In(loc)
	}
	hr, mi, se := ts.Clock()
	yr, mo, dy := ts.Date()
	var want zv
	switch fn {
	case "hour":
		want = zInt(int64(hr))
	case "minute":
		want = zInt(int64(mi))
	case "seconds":
		want = zInt(int64(se))
	case "day":
		want = zInt(int64(dy))
	case "month":
		want = zInt(int64(mo))
	case "year":
		want = zInt(int64(yr))
	case "weekday":
		want = zStr(ts.Weekday().String())
	}
	sv.Assert("C17.time", err == nil && zzSame(sv, out, want))
	// the zone is the one configured *now*: a second call after TZ changed
	tz2 := zones[sv.Choice("tz2", len(zones))]
	sv.Setenv("TZ", tz2)
	out2, err2 := e.Execute(nil)
	sv.Observe("err2", err2 != nil)
	name2 := tz2
	if name2 == "" {
		name2 = "UTC"
	}
	ts2 := time.Unix(v, 0)
	if loc, lerr := time.LoadLocation(name2); lerr == nil {
		ts2 = ts2.In(loc)
	}
	hr2, mi2, se2 := ts2.Clock()
	yr2, mo2, dy2 := ts2.Date()
	var want2 zv
	switch fn {
	case "hour":
		want2 = zInt(int64(hr2))
	case "minute":
		want2 = zInt(int64(mi2))
	case "seconds":
		want2 = zInt(int64(se2))
	case "day":
		want2 = zInt(int64(dy2))
	case "month":
		want2 = zInt(int64(mo2))
	case "year":
		want2 = zInt(int64(yr2))
	case "weekday":
		want2 = zStr(ts2.Weekday().String())
	}
	sv.Assert("C17.time.zone_follows_configuration", err2 == nil && zzSame(sv, out2, want2))
}

// zzOver makes a symbolic string of n bytes over the given alphabet.
func zzOver(sv *zzsv.T, name string, n int, alphabet string) string {
	s := sv.String(name, n)
	for j := 0; j < len(s); j++ {
		var in []bool
		for k := 0; k < len(alphabet); k++ {
			in = append(in, s[j] == alphabet[k])
		}
		sv.Assume(sv.Any(in...))
	}
	return s
}

var zzReplPatterns = []string{"b", "ab", "a+", "(a)(b)?", "^a", "b$", "[ab]", "a|b", "."}

// ZZ_C17_ReplaceMatch: replace(s, re, v) replaces every match of the
// pattern in s - whether the pattern is a plain word or uses regexp syntax,
// written as a regexp literal or held in a string - with v expanded the way
// the host's regexp library expands replacement templates ($1, $0, $$);
// match(s, re) is true exactly when the pattern matches one of the lines of
// s (surrounding blanks removed). Inputs and replacements are symbolic.
func ZZ_C17_ReplaceMatch(sv *zzsv.T) {
	pat := zzReplPatterns[sv.Choice("pattern", len(zzReplPatterns))]
	s := zzOver(sv, "s", sv.Choice("s.len", sv.Param("repl.maxlen", 3, 4)+1), "ab \n")
	fn := sv.Choice("fn", 2)
	asLiteral := sv.Choice("pattern_as_literal", 2) == 1
	patExpr := "p"
	if asLiteral {
		patExpr = "/" + pat + "/"
	}
	e := New("")
	e.SetVariable("s", &object.String{Value: s})
	e.SetVariable("p", &object.String{Value: pat})
	re := regexp.MustCompile(pat)
	if fn == 0 {
		v := zzOver(sv, "v", sv.Choice("v.len", 3), "$1x")
		e.SetVariable("v", &object.String{Value: v})
		e.Script = "return replace(s, " + patExpr + ", v);"
		sv.Note("script", e.Script)
		sv.Assume(e.Prepare() == nil)
		out, err := e.Execute(nil)
		zzDescribe(sv, "result", out, err)
		want := re.ReplaceAllString(s, v)
		sv.Assert("C17.replace", err == nil && zzSame(sv, out, zStr(want)))
		// the input is left unchanged
		sv.Assert("C17.replace.input_unchanged", zzSame(sv, e.GetVariable("s"), zStr(s)))
		return
	}
	e.Script = "return match(s, " + patExpr + ");"
	sv.Note("script", e.Script)
	sv.Assume(e.Prepare() == nil)
	out, err := e.Execute(nil)
	zzDescribe(sv, "result", out, err)
	want := false
	for _, line := range strings.Split(s, "\n") {
		if re.MatchString(strings.TrimSpace(line)) {
			want = true
		}
	}
	sv.Assert("C17.match", err == nil && zzSame(sv, out, zBool(want)))
}

// ZZ_C17_TimeConcrete: the time decomposition on concrete instants and
// zones chosen for their irregularities - offsets that are not whole hours
// or whole minutes (Monrovia before 1972, local mean time before 1900,
// Kathmandu, Lord Howe), instants before 1970, daylight-saving changes,
// the last second of a day and of a year: exactly the host library's answer.
func ZZ_C17_TimeConcrete(sv *zzsv.T) {
	fns := []string{"hour", "minute", "seconds", "day", "month", "year", "weekday"}
	fn := fns[sv.Choice("fn", len(fns))]
	zones := []string{"", "UTC", "Africa/Monrovia", "America/New_York", "Asia/Kathmandu", "Australia/Lord_Howe", "Europe/Amsterdam", "Asia/Kolkata"}
	tz := zones[sv.Choice("tz", len(zones))]
	instants := []int64{0, 59, 63072010, 31535999, 86399, -1, -86400, -2208988800, -3000000000, -1000000000, 1711846799, 1711846800, 4102444799, 951782400}
	v := instants[sv.Choice("instant", len(instants))]
	sv.Setenv("TZ", tz)
	e := New("return " + fn + "(v);")
	sv.Note("script", e.Script)
	sv.Note("TZ", tz)
	e.SetVariable("v", &object.Integer{Value: v})
	sv.Assume(e.Prepare() == nil)
	out, err := e.Execute(nil)
	zzDescribe(sv, "result", out, err)
	name := tz
	if name == "" {
		name = "UTC"
	}
	ts := time.Unix(v, 0)
	if loc, lerr := time.LoadLocation(name); lerr == nil {
		ts = ts.In(loc)
	}
	hr, mi, se := ts.Clock()
	yr, mo, dy := ts.Date()
	var want zv
	switch fn {
	case "hour":
		want = zInt(int64(hr))
	case "minute":
		want = zInt(int64(mi))
	case "seconds":
		want = zInt(int64(se))
	case "day":
		want = zInt(int64(dy))
	case "month":
		want = zInt(int64(mo))
	case "year":
		want = zInt(int64(yr))
	default:
		want = zStr(ts.Weekday().String())
	}
	sv.Assert("C17.timeconcrete", err == nil && zzSame(sv, out, want))
}
