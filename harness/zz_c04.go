//go:build verif

package evalfilter

// C04 - scripts see the host object's fields faithfully.

import (
	"math"
	"time"

	"github.com/skx/evalfilter/v2/object"
	"github.com/skx/evalfilter/v2/zzsv"
)

func init() {
	zzsv.Register("ZZ_C04_StructFields", ZZ_C04_StructFields)
	zzsv.Register("ZZ_C04_Unsupported", ZZ_C04_Unsupported)
	zzsv.Register("ZZ_C04_Map", ZZ_C04_Map)
	zzsv.Register("ZZ_C04_Runs", ZZ_C04_Runs)
	zzsv.Register("ZZ_C04_RunsAfterFailure", ZZ_C04_RunsAfterFailure)
	zzsv.Register("ZZ_C04_MapShapes", ZZ_C04_MapShapes)
	zzsv.Register("ZZ_C04_Embedded", ZZ_C04_Embedded)
	zzsv.Register("ZZ_C04_AliasedSlices", ZZ_C04_AliasedSlices)
}

type zzRecA struct {
	I   int
	I64 int64
	F32 float32
	F64 float64
	S   string
	B   bool
	T   time.Time
	SI  []int
	SS  []string
	SF  []float64
	SB  []bool
	S64 []int64
	S32 []int32
	SF3 []float32
	ST  []time.Time
	SIf []interface{}
	M   map[string]interface{}
}

// same fields, different order (field order must not matter)
type zzRecB struct {
	M   map[string]interface{}
	SIf []interface{}
	ST  []time.Time
	SF3 []float32
	S32 []int32
	S64 []int64
	SB  []bool
	SF  []float64
	SS  []string
	SI  []int
	T   time.Time
	B   bool
	S   string
	F64 float64
	F32 float32
	I64 int64
	I   int
}

var zzFieldNames = []string{"I", "I64", "F32", "F64", "S", "B", "T", "SI", "SS", "SF", "SB", "S64", "S32", "SF3", "ST", "SIf", "M", "Nope", "$I64"}

// ZZ_C04_StructFields: every supported field kind converts without loss,
// whatever the field order and whether the struct is passed by value or by
// pointer; slices keep order and length; unknown names are null; a script
// variable of the same name wins.
func ZZ_C04_StructFields(sv *zzsv.T) {
	a := zzRecA{}
	a.I = sv.Int("I")
	a.I64 = sv.Int64("I64")
	a.F32 = math.Float32frombits(sv.Float32bits("F32"))
	a.F64 = sv.Float64("F64")
	a.S = zzASCII(sv, "S", sv.Choice("S.len", 3))
	a.B = sv.Bool("B")
	tsec := sv.Int64("T")
	sv.Assume(tsec > -60000000000)
	sv.Assume(tsec < 60000000000)
	a.T = time.Unix(tsec, 0)
	n := sv.Choice("slicelen", sv.Param("slicelen", 3, 4))
	var tsecs []int64
	for k := 0; k < n; k++ {
		a.SI = append(a.SI, sv.Int("SI"))
		a.SS = append(a.SS, zzASCII(sv, "SS", 1))
		a.SF = append(a.SF, sv.Float64("SF"))
		a.SB = append(a.SB, sv.Bool("SB"))
		a.S64 = append(a.S64, sv.Int64("S64"))
		a.S32 = append(a.S32, sv.Int32("S32"))
		a.SF3 = append(a.SF3, math.Float32frombits(sv.Float32bits("SF3")))
		ts := sv.Int64("ST")
		sv.Assume(ts > -60000000000)
		sv.Assume(ts < 60000000000)
		tsecs = append(tsecs, ts)
		a.ST = append(a.ST, time.Unix(ts, 0))
	}
	if n > 0 {
		a.SIf = []interface{}{a.S, a.B, a.F64, a.I, a.I64}
	} else {
		a.SIf = []interface{}{}
	}
	a.M = map[string]interface{}{"k": a.I64}
	fi := sv.Choice("field", len(zzFieldNames))
	name := zzFieldNames[fi]
	var obj interface{}
	switch sv.Choice("layout", 4) {
	case 0:
		obj = a
	case 1:
		obj = &a
	default:
		b := zzRecB{M: a.M, SIf: a.SIf, ST: a.ST, SF3: a.SF3, S32: a.S32, S64: a.S64, SB: a.SB, SF: a.SF, SS: a.SS, SI: a.SI,
			T: a.T, B: a.B, S: a.S, F64: a.F64, F32: a.F32, I64: a.I64, I: a.I}
		if sv.Choice("layoutB.ptr", 2) == 0 {
			obj = b
		} else {
			obj = &b
		}
	}
	shadowMode := sv.Choice("shadow", 8)
	shadow := shadowMode > 0 && shadowMode < 4
	expr := name
	if name == "M" {
		expr = "M[\"k\"]"
	}
	e := New("return " + expr + ";")
	switch shadowMode {
	case 4: // read inside a user-defined function (the first thing to touch the object)
		e.Script = "function f() { return " + expr + "; } return f();"
	case 5: // read inside a function after the caller has read another field
		e.Script = "function f() { return " + expr + "; } probe = B; return f();"
	case 6: // read after a function call has returned
		e.Script = "function f() { return 1; } probe = S; q = f(); return " + expr + ";"
	case 7: // an argument expression of the call reads a field first
		e.Script = "function f(x) { return " + expr + "; } return f(I);"
	}
	switch shadowMode {
	case 2: // another field is read first (the object has been inspected already)
		e.Script = "probe = B; " + e.Script
	case 3: // the variable is assigned by the script after another field was read
		e.Script = "probe = S; " + name + " = 4242; " + e.Script
	}
	sv.Note("script", e.Script)
	if shadow {
		sv.Assume(name != "$I64")
		sv.Assume(name != "M")
		sv.Assume(name != "B" && name != "S")
		if shadowMode != 3 {
			e.SetVariable(name, &object.Integer{Value: 4242})
		}
	}
	sv.Assume(e.Prepare() == nil)
	out, err := e.Execute(obj)
	zzDescribe(sv, "result", out, err)
	sv.Assert("C04.field.noerror", err == nil)
	if err != nil {
		return
	}
	if shadow && name != "M" {
		sv.Assert("C04.field.variable_wins", zzSame(sv, out, zInt(4242)))
		return
	}
	if shadow {
		return // indexing the shadowing integer: not this property's subject
	}
	var want zv
	switch name {
	case "I":
		want = zInt(int64(a.I))
	case "I64", "$I64":
		want = zInt(a.I64)
	case "F32":
		want = zFloat(float64(a.F32))
	case "F64":
		want = zFloat(a.F64)
	case "S":
		want = zStr(a.S)
	case "B":
		want = zBool(a.B)
	case "T":
		want = zInt(tsec)
	case "M":
		want = zInt(a.I64)
	case "Nope":
		want = zNull()
	default:
		want = zv{t: tArray}
		for k := 0; k < n; k++ {
			switch name {
			case "SI":
				want.arr = append(want.arr, zInt(int64(a.SI[k])))
			case "SS":
				want.arr = append(want.arr, zStr(a.SS[k]))
			case "SF":
				want.arr = append(want.arr, zFloat(a.SF[k]))
			case "SB":
				want.arr = append(want.arr, zBool(a.SB[k]))
			case "S64":
				want.arr = append(want.arr, zInt(a.S64[k]))
			case "S32":
				want.arr = append(want.arr, zInt(int64(a.S32[k])))
			case "SF3":
				want.arr = append(want.arr, zFloat(float64(a.SF3[k])))
			case "ST":
				want.arr = append(want.arr, zInt(tsecs[k]))
			}
		}
		if name == "SIf" && n > 0 {
			want.arr = []zv{zStr(a.S), zBool(a.B), zFloat(a.F64), zInt(int64(a.I)), zInt(a.I64)}
		}
	}
	sv.Assert("C04.field.value", zzSame(sv, out, want))
}

type zzInner struct{ X int }

type zzOdd struct {
	Good int64
	U    uint
	U8   uint8
	I32  int32
	I8   int8
	P    *int
	N    zzInner
	C    chan int
	Fn   func()
	A    [2]int
	Cx   complex128
	If   interface{}
	SU   []uint
	SP   []*int
	Last int64 // a supported field declared after all the unsupported ones
}

// a map whose values are not interfaces makes the reflection walk itself
// fail; kept apart so that it does not mask the other kinds
type zzOddMap struct {
	Good int64
	MI   map[int]string
	MS   map[string]int
}

var zzOddNames = []string{"Last", "Good", "U", "U8", "I32", "I8", "P", "N", "C", "Fn", "A", "Cx", "If", "SU", "SP", "MI", "MS"}

// ZZ_C04_Unsupported: a field of a kind the engine cannot represent yields
// null or an error - never a nil object, never a crash of Run - and the
// supported fields next to it still convert.
func ZZ_C04_Unsupported(sv *zzsv.T) {
	x := 5
	o := zzOdd{Good: sv.Int64("Good"), U: uint(sv.Uint64("U")), U8: sv.Byte("U8"), I32: sv.Int32("I32"), P: &x,
		N: zzInner{X: 1}, A: [2]int{1, 2}, Cx: complex(1, 2), If: sv.Int64("If"), SU: []uint{1}, SP: []*int{&x}, Last: sv.Int64("Last")}
	if sv.Choice("nilptr", 2) == 1 {
		o.P = nil
		o.If = nil
	}
	name := zzOddNames[sv.Choice("field", len(zzOddNames))]
	var obj interface{} = o
	if sv.Choice("ptr", 2) == 1 {
		obj = &o
	}
	if name == "MI" || name == "MS" {
		obj = zzOddMap{Good: o.Good, MI: map[int]string{1: "a"}, MS: map[string]int{"a": 1}}
	} else if sv.Choice("mapsibling", 2) == 1 {
		sv.Assume(name == "Good")
		obj = &zzOddMap{Good: o.Good, MI: map[int]string{1: "a"}}
	}
	useRun := sv.Choice("api", 2) == 1
	e := New("return " + name + ";")
	if name == "SU" || name == "SP" {
		// the members of a slice the engine cannot convert
		switch sv.Choice("member", 3) {
		case 1:
			e.Script = "return " + name + "[0];"
		case 2:
			e.Script = "foreach m in " + name + " { return m; } return 1;"
		}
	}
	sv.Note("script", e.Script)
	sv.Assume(e.Prepare() == nil)
	var out object.Object
	var err error
	okRun := zzNoPanic(func() {
		if useRun {
			_, err = e.Run(obj)
		} else {
			out, err = e.Execute(obj)
		}
	})
	sv.Observe("outcome", okRun, err != nil)
	sv.Assert("C04.odd.nopanic", okRun)
	if !okRun || useRun {
		return
	}
	if name == "Good" {
		// next to an unconvertible field the good field is delivered
		// faithfully, or the run fails - never a wrong value
		sv.Assert("C04.odd.good", err != nil || zzSame(sv, out, zInt(o.Good)))
		return
	}
	if name == "Last" {
		sv.Assert("C04.odd.field_after_unsupported", err != nil || zzSame(sv, out, zInt(o.Last)))
		return
	}
	sv.Assert("C04.odd.null_or_error", err != nil || out != nil)
}

// ZZ_C04_Map: JSON-shaped map[string]interface{} documents: scalars, nil,
// nested maps (hashes) and arrays.
func ZZ_C04_Map(sv *zzsv.T) {
	f := sv.Float64("num")
	s := zzASCII(sv, "str", sv.Choice("str.len", 3))
	b := sv.Bool("flag")
	i := sv.Int64("int")
	doc := map[string]interface{}{
		"num":   f,
		"str":   s,
		"flag":  b,
		"int":   i,
		"null":  nil,
		"arr":   []interface{}{s, f, b},
		"empty": []interface{}{},
		"obj":   map[string]interface{}{"in": f, "deep": map[string]interface{}{"x": s}},
	}
	scripts := []string{"return num;", "return str;", "return flag;", "return int;", "return null;", "return arr;",
		"return empty;", "return obj.in;", "return obj[\"deep\"][\"x\"];", "return missing;", "return len(arr);"}
	k := sv.Choice("script", len(scripts))
	e := New(scripts[k])
	switch sv.Choice("where", 3) {
	case 1: // the same read inside a user-defined function, after the caller read a member
		e.Script = "function f() { " + scripts[k] + " } probe = flag; return f();"
	case 2: // inside a loop body inside a function
		e.Script = "function f(x) { foreach v in [1] { " + scripts[k] + " } return 0; } return f(str);"
	}
	sv.Note("script", e.Script)
	sv.Assume(e.Prepare() == nil)
	out, err := e.Execute(doc)
	zzDescribe(sv, "result", out, err)
	sv.Assert("C04.map.noerror", err == nil)
	if err != nil {
		return
	}
	wants := []zv{zFloat(f), zStr(s), zBool(b), zInt(i), zNull(), zArr(zStr(s), zFloat(f), zBool(b)), zArr(),
		zFloat(f), zStr(s), zNull(), zInt(3)}
	sv.Assert("C04.map.value", zzSame(sv, out, wants[k]))
}

type zzTwo struct {
	A int64
	B string
}

// ZZ_C04_Runs: each run sees the object passed to that run.
func ZZ_C04_Runs(sv *zzsv.T) {
	o1 := zzTwo{A: sv.Int64("A1"), B: zzASCII(sv, "B1", 1)}
	o2 := zzTwo{A: sv.Int64("A2"), B: zzASCII(sv, "B2", 1)}
	e := New("return A;")
	if sv.Choice("field", 2) == 1 {
		e.Script = "return B;"
	}
	sv.Note("script", e.Script)
	sv.Assume(e.Prepare() == nil)
	var first interface{} = o1
	var second interface{} = o2
	var between func()
	switch sv.Choice("second", 9) {
	case 6: // the same struct, through the same pointer, updated in place by the host
		p := &zzTwo{A: o1.A, B: o1.B}
		first, second = p, p
		between = func() { p.A, p.B = o2.A, o2.B }
	case 7: // the same map, updated in place
		m := map[string]interface{}{"A": o1.A, "B": o1.B}
		first, second = m, m
		between = func() { m["A"], m["B"] = o2.A, o2.B }
	case 8: // the same map: the field appears only for the second run
		m := map[string]interface{}{"Z": o1.A}
		first, second = m, m
		between = func() { m["A"], m["B"] = o2.A, o2.B }
	case 1:
		second = &o2
	case 2:
		second = map[string]interface{}{"A": o2.A, "B": o2.B}
	case 3: // two different unnamed struct types: the same fields in another order
		first = struct {
			A int64
			B string
		}{o1.A, o1.B}
		second = struct {
			B string
			A int64
		}{o2.B, o2.A}
	case 4: // the second type has one more field, in front
		first = struct {
			A int64
			B string
		}{o1.A, o1.B}
		second = &struct {
			X bool
			A int64
			B string
		}{true, o2.A, o2.B}
	case 5: // a named type after an unnamed one with other fields
		first = struct {
			B string
			Q int
			A int64
		}{o1.B, 3, o1.A}
	}
	out1, err1 := e.Execute(first)
	if between != nil {
		between()
	}
	out2, err2 := e.Execute(second)
	zzDescribe(sv, "first", out1, err1)
	zzDescribe(sv, "second", out2, err2)
	sv.Assert("C04.runs.noerror", err1 == nil && err2 == nil)
	if err1 != nil || err2 != nil {
		return
	}
	fm, _ := first.(map[string]interface{})
	if _, absent := fm["Z"]; absent {
		// a name that is neither a variable nor a key yields null
		sv.Assert("C04.runs.first", zzSame(sv, out1, zNull()))
		if e.Script == "return A;" {
			sv.Assert("C04.runs.second", zzSame(sv, out2, zInt(o2.A)))
		} else {
			sv.Assert("C04.runs.second", zzSame(sv, out2, zStr(o2.B)))
		}
	} else if e.Script == "return A;" {
		sv.Assert("C04.runs.first", zzSame(sv, out1, zInt(o1.A)))
		sv.Assert("C04.runs.second", zzSame(sv, out2, zInt(o2.A)))
	} else {
		sv.Assert("C04.runs.first", zzSame(sv, out1, zStr(o1.B)))
		sv.Assert("C04.runs.second", zzSame(sv, out2, zStr(o2.B)))
	}
}

// ZZ_C04_RunsAfterFailure: "each run sees the object passed to that run"
// also after a run that ended badly - an error, a panic() or an unknown
// function inside a user-defined function, at top level, inside a loop - and
// whatever the shapes of the two objects are (structs, maps with other keys).
func ZZ_C04_RunsAfterFailure(sv *zzsv.T) {
	faults := []string{
		"function chk(x) { if (x < 0) { panic(\"negative\"); } return x; } return chk(A) + A;",
		"function chk(x) { if (x < 0) { return x + \"s\"; } return x; } return chk(A) + A;",
		"function chk(x) { if (x < 0) { return nosuch(x); } return x; } return chk(A) + A;",
		"function chk(x) { foreach v in [1, 2] { if (x < 0) { return v / 0; } } return x; } return chk(A) + A;",
		"if (A < 0) { return A / 0; } return A + A;",
		"function deep(x) { return chk(x); } function chk(x) { if (x < 0) { panic(\"negative\"); } return x; } return deep(A) + A;",
	}
	e := New(faults[sv.Choice("script", len(faults))])
	sv.Note("script", e.Script)
	sv.Assume(e.Prepare() == nil)
	a1 := sv.Int64("A1")
	a2 := sv.Int64("A2")
	sv.Assume(a1 < 0 && a1 > -1000 && a2 >= 0 && a2 < 1000000)
	var first, second interface{}
	switch sv.Choice("shapes", 4) {
	case 0:
		first, second = zzTwo{A: a1}, zzTwo{A: a2}
	case 1:
		first, second = map[string]interface{}{"A": a1, "X": 1}, map[string]interface{}{"A": a2}
	case 2:
		first, second = &zzTwo{A: a1}, map[string]interface{}{"A": a2, "Y": "y"}
	default:
		p := &zzTwo{A: a1}
		first, second = p, p
	}
	_, err1 := e.Execute(first)
	sv.Assert("C04.afterfail.first_fails", err1 != nil)
	if p, same := second.(*zzTwo); same && first == second {
		p.A = a2
	}
	out, err2 := e.Execute(second)
	zzDescribe(sv, "second", out, err2)
	sv.Assert("C04.afterfail.second", err2 == nil && zzSame(sv, out, zInt(a2+a2)))
	// and a third run on the first object fails again
	if p, same := first.(*zzTwo); same && first == second {
		p.A = a1
	}
	_, err3 := e.Execute(first)
	sv.Assert("C04.afterfail.third_fails", err3 != nil)
}

// ZZ_C04_MapShapes: maps of different key sets, one after the other: a key
// the earlier map had and this one lacks is neither a field nor a variable
// and yields null; a key this one has reads this one's value.
func ZZ_C04_MapShapes(sv *zzsv.T) {
	a1 := sv.Int64("A1")
	a2 := sv.Int64("A2")
	b1 := zzASCII(sv, "B1", 1)
	scripts := []string{"return B;", "return A;", "if (B) { return A; } return 0 - A;", "function f() { return B; } return f();"}
	k := sv.Choice("script", len(scripts))
	e := New(scripts[k])
	sv.Note("script", e.Script)
	sv.Assume(e.Prepare() == nil)
	m1 := map[string]interface{}{"A": a1, "B": b1}
	var m2 interface{} = map[string]interface{}{"A": a2}
	if sv.Choice("second", 2) == 1 {
		m2 = map[string]interface{}{"A": a2, "C": true}
	}
	out1, err1 := e.Execute(m1)
	out2, err2 := e.Execute(m2)
	zzDescribe(sv, "first", out1, err1)
	zzDescribe(sv, "second", out2, err2)
	sv.Assert("C04.shapes.noerror", err1 == nil && err2 == nil)
	if err1 != nil || err2 != nil {
		return
	}
	switch k {
	case 0, 3:
		sv.Assert("C04.shapes.first", zzSame(sv, out1, zStr(b1)))
		sv.Assert("C04.shapes.second_is_null", zzSame(sv, out2, zNull()))
	case 1:
		sv.Assert("C04.shapes.first", zzSame(sv, out1, zInt(a1)))
		sv.Assert("C04.shapes.second", zzSame(sv, out2, zInt(a2)))
	default:
		sv.Assert("C04.shapes.first", zzSame(sv, out1, zInt(a1)))
		sv.Assert("C04.shapes.second", zzSame(sv, out2, zInt(0-a2)))
	}
}

type ZzAudit struct {
	Name string
	By   int64
}

type zzEmbedAfter struct {
	Name  string
	Count int64
	ZzAudit
}

type zzEmbedBefore struct {
	ZzAudit
	Name  string
	Count int64
}

type zzEmbedPtr struct {
	Name string
	*ZzAudit
	Count int64
}

// ZZ_C04_Embedded: a struct that embeds another struct whose field names
// collide with its own: the script sees the host object's own field
// (`obj.Name`), in whatever order the fields are declared and whether the
// embedded struct is a value or a pointer; reading the embedded struct or its
// other fields never crashes and never disturbs the outer fields.
func ZZ_C04_Embedded(sv *zzsv.T) {
	outer := zzASCII(sv, "outer", 1)
	inner := zzASCII(sv, "inner", 1)
	cnt := sv.Int64("Count")
	by := sv.Int64("By")
	var obj interface{}
	switch sv.Choice("shape", 4) {
	case 0:
		obj = zzEmbedAfter{Name: outer, Count: cnt, ZzAudit: ZzAudit{Name: inner, By: by}}
	case 1:
		obj = &zzEmbedBefore{ZzAudit: ZzAudit{Name: inner, By: by}, Name: outer, Count: cnt}
	case 2:
		obj = zzEmbedPtr{Name: outer, ZzAudit: &ZzAudit{Name: inner, By: by}, Count: cnt}
	default:
		obj = &zzEmbedPtr{Name: outer, Count: cnt}
	}
	scripts := []string{"return Name;", "x = By; return Name;", "x = ZzAudit; return Count;", "x = By; y = ZzAudit; return Name + Name;", "return Count;"}
	k := sv.Choice("script", len(scripts))
	e := New(scripts[k])
	sv.Note("script", e.Script)
	sv.Assume(e.Prepare() == nil)
	var out object.Object
	var err error
	ok := zzNoPanic(func() { out, err = e.Execute(obj) })
	sv.Assert("C04.embedded.nopanic", ok)
	if !ok {
		return
	}
	zzDescribe(sv, "result", out, err)
	sv.Assert("C04.embedded.noerror", err == nil)
	if err != nil {
		return
	}
	switch k {
	case 0, 1:
		sv.Assert("C04.embedded.own_field", zzSame(sv, out, zStr(outer)))
	case 3:
		sv.Assert("C04.embedded.own_field", zzSame(sv, out, zStr(outer+outer)))
	default:
		sv.Assert("C04.embedded.own_field", zzSame(sv, out, zInt(cnt)))
	}
}

type zzAliased struct {
	All  []int64
	Top  []int64
	Tail []int64
	Same []int64
	Strs []string
	Two  []string
}

// ZZ_C04_AliasedSlices: slice fields that share one backing array - a
// prefix, a suffix, the same slice twice - in a struct or a map: each field
// is an array of its own length and elements, in order.
func ZZ_C04_AliasedSlices(sv *zzsv.T) {
	all := []int64{sv.Int64("e0"), sv.Int64("e1"), sv.Int64("e2"), sv.Int64("e3")}
	strs := []string{"a", "b", "c"}
	var obj interface{}
	if sv.Choice("as_map", 2) == 1 {
		obj = map[string]interface{}{"All": all, "Top": all[:2], "Tail": all[1:], "Same": all, "Strs": strs, "Two": strs[:2]}
	} else {
		obj = &zzAliased{All: all, Top: all[:2], Tail: all[1:], Same: all, Strs: strs, Two: strs[:2]}
	}
	scripts := []string{
		"return [len(All), len(Top), len(Tail), len(Same), len(Strs), len(Two)];",
		"return [len(Top), len(All)];",
		"return Top;", "return Tail;", "x = All; return Top;", "x = Top; return All;", "return Two;",
	}
	k := sv.Choice("script", len(scripts))
	e := New(scripts[k])
	sv.Note("script", e.Script)
	sv.Assume(e.Prepare() == nil)
	out, err := e.Execute(obj)
	zzDescribe(sv, "result", out, err)
	ints := func(xs ...int64) zv {
		v := zv{t: tArray}
		for _, x := range xs {
			v.arr = append(v.arr, zInt(x))
		}
		return v
	}
	var want zv
	switch k {
	case 0:
		want = ints(4, 2, 3, 4, 3, 2)
	case 1:
		want = ints(2, 4)
	case 2, 4:
		want = ints(all[0], all[1])
	case 3:
		want = ints(all[1], all[2], all[3])
	case 5:
		want = ints(all...)
	default:
		want = zArr(zStr("a"), zStr("b"))
	}
	sv.Assert("C04.aliased", err == nil && zzSame(sv, out, want))
}
