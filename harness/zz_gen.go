//go:build verif

package evalfilter

// A small program generator with its own reference interpreter, written
// from the language description (README and the statements of C02, C03,
// C06, C07, C15). Programs are trees over a mini-AST; the tree is printed to
// script text for the implementation and executed directly by the reference
// interpreter. Shapes are chosen with sv.Choice; every number, truth value
// and container element the program computes with is symbolic.

import (
	"strconv"

	"github.com/skx/evalfilter/v2/object"
	"github.com/skx/evalfilter/v2/zzsv"
)

// ---- expressions

const (
	eLit   = iota // integer literal (concrete spelling)
	eVar          // variable or object field
	eBin          // a op b (op in + - < <= == !=)
	eTern         // c ? a : b
	eCall         // user function call f(args...)
	eTrue         // true
	eFalse        // false
	eArr          // [a, b, ...]
	eRange        // a..b
	eStr          // string literal
	eSymLit       // integer literal whose value is symbolic (spelled 7001+k, replaced at AST level)
	eFloat        // float literal (concrete spelling in s, value in f)
	eNeg          // -a
)

type zzExpr struct {
	kind int
	k    int64
	name string
	op   string
	a, b *zzExpr
	c    *zzExpr
	args []*zzExpr
	s    string
	f    float64
}

// zzSymLits holds the values of the symbolic literals of the program being
// interpreted by the reference interpreter.
func xSym(k int) *zzExpr { return &zzExpr{kind: eSymLit, k: int64(k)} }
func xFloat(spelling string, v float64) *zzExpr {
	return &zzExpr{kind: eFloat, s: spelling, f: v}
}

func xNeg(a *zzExpr) *zzExpr           { return &zzExpr{kind: eNeg, a: a} }
func xLit(k int64) *zzExpr             { return &zzExpr{kind: eLit, k: k} }
func xVar(n string) *zzExpr            { return &zzExpr{kind: eVar, name: n} }
func xBin(op string, a, b *zzExpr) *zzExpr { return &zzExpr{kind: eBin, op: op, a: a, b: b} }
func xTern(c, a, b *zzExpr) *zzExpr    { return &zzExpr{kind: eTern, c: c, a: a, b: b} }
func xCall(f string, args ...*zzExpr) *zzExpr {
	return &zzExpr{kind: eCall, name: f, args: args}
}

func (e *zzExpr) text() string {
	switch e.kind {
	case eLit:
		return strconv.FormatInt(e.k, 10)
	case eVar:
		return e.name
	case eNeg:
		return "(-" + e.a.text() + ")"
	case eBin:
		return "(" + e.a.text() + " " + e.op + " " + e.b.text() + ")"
	case eTern:
		return "(" + e.c.text() + " ? " + e.a.text() + " : " + e.b.text() + ")"
	case eCall:
		s := e.name + "("
		for i, a := range e.args {
			if i > 0 {
				s += ", "
			}
			s += a.text()
		}
		return s + ")"
	case eTrue:
		return "true"
	case eFalse:
		return "false"
	case eArr:
		s := "["
		for i, a := range e.args {
			if i > 0 {
				s += ", "
			}
			s += a.text()
		}
		return s + "]"
	case eRange:
		return e.a.text() + ".." + e.b.text()
	case eStr:
		return "\"" + e.s + "\""
	case eSymLit:
		return strconv.FormatInt(7001+e.k, 10)
	case eFloat:
		return e.s
	}
	panic("expr text")
}

// ---- statements

const (
	sTrace   = iota // t(expr);
	sReturn         // return expr;
	sAssign         // name = expr;
	sIf             // if (c) {..} [else {..}]
	sWhile          // while (c) {..}
	sForeach        // foreach [idx,] v in it {..}
	sSwitch         // switch (v) { case .. {..} default {..} }
	sExpr           // expr;   (ternary / call as a statement)
	sLocal          // local name;
	sIncr           // name++ / name-- / name += e ...
)

type zzCase struct {
	exprs []*zzExpr
	dflt  bool
	body  []*zzStmt
}

type zzStmt struct {
	kind  int
	e     *zzExpr
	name  string
	idx   string
	op    string
	body  []*zzStmt
	els   []*zzStmt
	hasEl bool
	cases []zzCase
	// elseIf prints `else if` instead of `else { if }`
	elseIf bool
	// spellFor prints a while loop with the keyword `for` (a synonym)
	spellFor bool
}

type zzFunc struct {
	name   string
	params []string
	body   []*zzStmt
}

type zzProg struct {
	funcs []*zzFunc
	main  []*zzStmt
	// funcsFirst prints the definitions before the main statements
	funcsLast bool
}

func zzBlock(ss []*zzStmt, ind string) string {
	out := ""
	for _, s := range ss {
		out += s.text(ind)
	}
	return out
}

func (s *zzStmt) text(ind string) string {
	switch s.kind {
	case sTrace:
		return ind + "t(" + s.e.text() + ");\n"
	case sReturn:
		return ind + "return " + s.e.text() + ";\n"
	case sAssign:
		return ind + s.name + " = " + s.e.text() + ";\n"
	case sExpr:
		// an expression statement must not start with "(": after a block
		// that would parse as a call of the preceding expression
		txt := s.e.text()
		if s.e.kind == eTern {
			c := s.e.c.text()
			if s.e.c.kind == eBin {
				c = s.e.c.a.text() + " " + s.e.c.op + " " + s.e.c.b.text()
			}
			txt = c + " ? " + s.e.a.text() + " : " + s.e.b.text()
		}
		return ind + txt + ";\n"
	case sLocal:
		return ind + "local " + s.name + ";\n"
	case sIncr:
		if s.op == "++" || s.op == "--" {
			return ind + s.name + s.op + ";\n"
		}
		return ind + s.name + " " + s.op + " " + s.e.text() + ";\n"
	case sIf:
		out := ind + "if (" + s.e.text() + ") {\n" + zzBlock(s.body, ind+"  ") + ind + "}"
		if s.hasEl {
			if s.elseIf && len(s.els) == 1 && s.els[0].kind == sIf {
				inner := s.els[0].text(ind)
				out += " else " + inner[len(ind):]
				return out
			}
			out += " else {\n" + zzBlock(s.els, ind+"  ") + ind + "}"
		}
		return out + "\n"
	case sWhile:
		kw := "while"
		if s.spellFor {
			kw = "for"
		}
		return ind + kw + " (" + s.e.text() + ") {\n" + zzBlock(s.body, ind+"  ") + ind + "}\n"
	case sForeach:
		h := ind + "foreach "
		if s.idx != "" {
			h += s.idx + ", "
		}
		return h + s.name + " in " + s.e.text() + " {\n" + zzBlock(s.body, ind+"  ") + ind + "}\n"
	case sSwitch:
		out := ind + "switch (" + s.e.text() + ") {\n"
		for _, c := range s.cases {
			if c.dflt {
				out += ind + "  default {\n"
			} else {
				out += ind + "  case "
				for i, e := range c.exprs {
					if i > 0 {
						out += ", "
					}
					out += e.text()
				}
				out += " {\n"
			}
			out += zzBlock(c.body, ind+"    ") + ind + "  }\n"
		}
		return out + ind + "}\n"
	}
	panic("stmt text")
}

func (p *zzProg) text() string {
	fs := ""
	for _, f := range p.funcs {
		fs += "function " + f.name + "("
		for i, a := range f.params {
			if i > 0 {
				fs += ", "
			}
			fs += a
		}
		fs += ") {\n" + zzBlock(f.body, "  ") + "}\n"
	}
	if p.funcsLast {
		return zzBlock(p.main, "") + fs
	}
	return fs + zzBlock(p.main, "")
}

// ---- reference interpreter

type zzRef struct {
	sv      *zzsv.T
	prog    *zzProg
	globals map[string]zv
	gorder  []string
	scopes  []map[string]zv // function-call and loop scopes, innermost last
	fields  map[string]zv   // the object's fields
	trace   []zv
	failed  bool // run-time error
	steps   int
	depth   int
	lits    []int64 // values of the symbolic literals
}

type zzRet struct {
	returned bool
	void     bool
	v        zv
}

func (r *zzRef) lookup(name string) zv {
	for i := len(r.scopes) - 1; i >= 0; i-- {
		if v, ok := r.scopes[i][name]; ok {
			return v
		}
	}
	if v, ok := r.globals[name]; ok {
		return v
	}
	if v, ok := r.fields[name]; ok {
		return v
	}
	return zNull()
}

// set: a name bound in a scope of the running call or loop is updated
// there; every other name is global.
func (r *zzRef) set(name string, v zv) {
	for i := len(r.scopes) - 1; i >= 0; i-- {
		if _, ok := r.scopes[i][name]; ok {
			r.scopes[i][name] = v
			return
		}
	}
	if _, ok := r.globals[name]; !ok {
		r.gorder = append(r.gorder, name)
	}
	r.globals[name] = v
}

func (r *zzRef) eval(e *zzExpr) zv {
	if r.failed {
		return zNull()
	}
	switch e.kind {
	case eLit:
		return zInt(e.k)
	case eTrue:
		return zBool(true)
	case eFalse:
		return zBool(false)
	case eStr:
		return zStr(e.s)
	case eSymLit:
		return zInt(r.lits[e.k])
	case eFloat:
		return zFloat(e.f)
	case eVar:
		return r.lookup(e.name)
	case eArr:
		v := zv{t: tArray}
		for _, a := range e.args {
			v.arr = append(v.arr, r.eval(a))
		}
		return v
	case eRange:
		lo, hi := r.eval(e.a), r.eval(e.b)
		if lo.t != tInt || hi.t != tInt || lo.i > hi.i {
			r.failed = true
			return zNull()
		}
		v := zv{t: tArray}
		for k := lo.i; k <= hi.i; k++ {
			v.arr = append(v.arr, zInt(k))
		}
		return v
	case eNeg:
		a := r.eval(e.a)
		switch a.t {
		case tInt:
			return zInt(-a.i)
		case tFloat:
			return zFloat(-a.f)
		}
		r.failed = true
		return zNull()
	case eBin:
		a, b := r.eval(e.a), r.eval(e.b)
		if r.failed {
			return zNull()
		}
		kind, v := zzSpecBinary(r.sv, e.op, a, b)
		if kind != kValue {
			r.failed = true
			return zNull()
		}
		return v
	case eTern:
		if zzTruth(r.eval(e.c)) {
			return r.eval(e.a)
		}
		return r.eval(e.b)
	case eCall:
		ret := r.call(e.name, e.args)
		if ret.void {
			// a value-less call used as a value is outside the language
			// definition (DESIGN appendix B): generators do not emit it.
			r.failed = true
			return zNull()
		}
		return ret.v
	}
	panic("eval")
}

func (r *zzRef) call(name string, args []*zzExpr) zzRet {
	var f *zzFunc
	for _, g := range r.prog.funcs {
		if g.name == name {
			f = g
		}
	}
	var vals []zv
	for _, a := range args {
		vals = append(vals, r.eval(a))
	}
	if r.failed {
		return zzRet{}
	}
	if f == nil || len(f.params) != len(vals) {
		r.failed = true
		return zzRet{}
	}
	r.depth++
	if r.depth > 8 {
		r.failed = true
		return zzRet{}
	}
	scope := map[string]zv{}
	for i, p := range f.params {
		scope[p] = vals[i]
	}
	saved := r.scopes
	r.scopes = append(append([]map[string]zv{}, r.scopes...), scope)
	ret := r.block(f.body)
	r.scopes = saved
	r.depth--
	if !ret.returned {
		return zzRet{void: true}
	}
	return ret
}

func (r *zzRef) block(ss []*zzStmt) zzRet {
	for _, s := range ss {
		if r.failed {
			return zzRet{}
		}
		r.steps++
		if r.steps > 400 {
			r.failed = true
			return zzRet{}
		}
		if ret := r.stmt(s); ret.returned || r.failed {
			return ret
		}
	}
	return zzRet{}
}

func (r *zzRef) stmt(s *zzStmt) zzRet {
	switch s.kind {
	case sTrace:
		v := r.eval(s.e)
		if !r.failed {
			r.trace = append(r.trace, v)
		}
	case sReturn:
		v := r.eval(s.e)
		return zzRet{returned: true, v: v}
	case sAssign:
		v := r.eval(s.e)
		if !r.failed {
			r.set(s.name, v)
		}
	case sExpr:
		if s.e.kind == eCall {
			r.call(s.e.name, s.e.args)
		} else {
			r.eval(s.e)
		}
	case sLocal:
		if len(r.scopes) > 0 {
			r.scopes[len(r.scopes)-1][s.name] = zNull()
		}
	case sIncr:
		cur := r.lookup(s.name)
		var nv zv
		switch s.op {
		case "++", "--":
			d := int64(1)
			if s.op == "--" {
				d = -1
			}
			switch cur.t {
			case tInt:
				nv = zInt(cur.i + d)
			case tFloat:
				nv = zFloat(cur.f + float64(d))
			default:
				r.failed = true
				return zzRet{}
			}
		default:
			kind, v := zzSpecBinary(r.sv, s.op[:1], cur, r.eval(s.e))
			if kind != kValue {
				r.failed = true
				return zzRet{}
			}
			nv = v
		}
		if !r.failed {
			r.set(s.name, nv)
		}
	case sIf:
		if zzTruth(r.eval(s.e)) {
			return r.block(s.body)
		} else if s.hasEl {
			return r.block(s.els)
		}
	case sWhile:
		for zzTruth(r.eval(s.e)) && !r.failed {
			if ret := r.block(s.body); ret.returned || r.failed {
				return ret
			}
		}
	case sForeach:
		it := r.eval(s.e)
		if r.failed {
			return zzRet{}
		}
		var keys, vals []zv
		switch it.t {
		case tArray:
			for k, v := range it.arr {
				keys = append(keys, zInt(int64(k)))
				vals = append(vals, v)
			}
		case tString:
			for k, ch := range []rune(it.s) {
				keys = append(keys, zInt(int64(k)))
				vals = append(vals, zStr(string(ch)))
			}
		case tHash:
			// generator hashes are built with keys in sorted order
			keys, vals = it.hk, it.hv
		default:
			r.failed = true
			return zzRet{}
		}
		scope := map[string]zv{}
		saved := r.scopes
		r.scopes = append(append([]map[string]zv{}, r.scopes...), scope)
		for k := range vals {
			scope[s.name] = vals[k]
			if s.idx != "" {
				scope[s.idx] = keys[k]
			}
			if ret := r.block(s.body); ret.returned || r.failed {
				r.scopes = saved
				return ret
			}
		}
		r.scopes = saved
	case sSwitch:
		v := r.eval(s.e)
		if r.failed {
			return zzRet{}
		}
		for _, c := range s.cases {
			if c.dflt {
				continue
			}
			for _, ce := range c.exprs {
				cv := r.eval(ce)
				if r.failed {
					return zzRet{}
				}
				if cv.t == v.t && zzEqualScalars(v, cv) {
					return r.block(c.body)
				}
			}
		}
		for _, c := range s.cases {
			if c.dflt {
				return r.block(c.body)
			}
		}
	}
	return zzRet{}
}

func zzEqualScalars(a, b zv) bool {
	switch a.t {
	case tInt:
		return a.i == b.i
	case tBool:
		return a.b == b.b
	case tString:
		return a.s == b.s
	case tNull:
		return true
	}
	return false
}

// zzRunRef executes the program with the reference semantics.
func zzRunRef(sv *zzsv.T, p *zzProg, globals map[string]zv, fields map[string]zv) (r *zzRef, result zv) {
	r = &zzRef{sv: sv, prog: p, globals: map[string]zv{}, fields: fields}
	for k, v := range globals {
		r.globals[k] = v
	}
	ret := r.block(p.main)
	if ret.returned {
		return r, ret.v
	}
	return r, zNull()
}

// ---- running the implementation

type zzImplRun struct {
	out   object.Object
	err   error
	trace []object.Object
}

// zzPrepare builds an evaluator for the program text with the trace
// function `t` and the given variables.
func zzPrepare(sv *zzsv.T, src string, vars map[string]zv, order []string, noopt bool, trace *[]object.Object) (*Eval, error) {
	e := New(src)
	e.AddFunction("t", func(args []object.Object) object.Object {
		if len(args) > 0 {
			*trace = append(*trace, args[0])
		}
		return &object.Void{}
	})
	for _, k := range order {
		e.SetVariable(k, vars[k].obj())
	}
	if noopt {
		return e, e.Prepare([]byte{NoOptimize})
	}
	return e, e.Prepare()
}

// zzCompareRun asserts that the implementation's observable outcome equals
// the reference's: error-ness, result, trace, and the listed variables.
func zzCompareRun(sv *zzsv.T, site string, e *Eval, out object.Object, err error, trace []object.Object, r *zzRef, result zv, vars []string) {
	sv.Observe(site+".err", err != nil)
	if r.failed {
		sv.Assert(site+".error", err != nil)
		return
	}
	sv.Assert(site+".noerror", err == nil)
	if err != nil {
		return
	}
	sv.Assert(site+".result", zzSame(sv, out, result))
	sv.Assert(site+".tracelen", len(trace) == len(r.trace))
	if len(trace) == len(r.trace) {
		for k := range trace {
			sv.Assert(site+".trace", zzSame(sv, trace[k], r.trace[k]))
		}
	}
	for _, name := range vars {
		want, ok := r.globals[name]
		got := e.GetVariable(name)
		if !ok {
			sv.Assert(site+".var.absent", zzSame(sv, got, zNull()))
		} else {
			sv.Assert(site+".var", zzSame(sv, got, want))
		}
	}
}
