//go:build verif

package evalfilter

// C13 - a script that cannot be fully translated is rejected by Prepare.

import (
	"strings"

	"github.com/skx/evalfilter/v2/zzsv"
)

func init() {
	zzsv.Register("ZZ_C13_FragmentInContext", ZZ_C13_FragmentInContext)
	zzsv.Register("ZZ_C13_Truncation", ZZ_C13_Truncation)
}

type zzFrag struct {
	text string // %S = symbolic string body, %I = symbolic identifier letter, %D = symbolic digit
	stmt bool   // a statement (else an expression)
}

var zzBadFrags = []zzFrag{
	{"x = \"%S", true},                    // unterminated string
	{"x = '%S", true},                     // unterminated string, other quote
	{"x = (a ~= /%S)", true},              // unterminated regexp
	{"if (a) { t(1);", true},              // unterminated block
	{"function g(p, q { return 1; }", true}, // unterminated parameter list
	{"function g(p", true},
	{"switch (a) { case 1 { t(1); }", true}, // unterminated switch
	{"%D +", false},                       // missing operand
	{"a *", false},
	{"a ? : 2", false},
	{"(a +)", false},
	{"%D = 2", false},                     // assignment to a non-variable
	{"\"%S\" = 1", false},
	{"%D += 2", false},                    // compound assignment to a non-variable
	{"\"s\" -= %D", false},
	{"t(1) *= 2", false},
	{"local %I;", true},                   // local outside a function (only when not inside one)
	{"(a ? (b ? 1 : 2) : 3)", false},      // nested ternaries
	{"(a ? 1 : (b ? 2 : 3))", false},
	{"(a ? 1 : b ? 2 : 3)", false},        // ... chained without parentheses
	{"(a ? b ? 1 : 2 : 3)", false},
	{"(a ? 1 : b + %D ? 2 : 3)", false},
	{"(a ? 1 : !b ? 2 : 3)", false},
	// (a parenthesised ternary as the *condition* of another, `(a ? 1 : 2) ? 3 : 4`, is
	// accepted and evaluated correctly; whether that counts as nesting is not settled by
	// the statement, so it is not asserted either way)
	{"a # %I", false},                     // illegal characters
	{"a & b", false},
	{"a | b", false},
	{"@", false},
	{"a \x00 b", false},                   // NUL in the middle of the text
	{"a %X b", false},                     // any character outside the language's alphabet ...
	{"a%Xb", false},                       // ... also glued to identifiers
	{"%X", false},
	{"%I%X(1)", false},
	{"case 1 { t(1); }", true},            // case outside a switch
	{"switch (a) { default { t(1); } default { t(2); } }", true},
	{"foreach in a { t(1); }", true},
	{"foreach v a { t(1); }", true},
	// (`a ! b` and `1 2` are two valid expression statements: separators are optional)
}

type zzCtx struct {
	text   string // H is the hole
	stmt   bool   // the hole is a statement position
	inFunc bool
}

var zzContexts = []zzCtx{
	{"H", true, false},
	{"if (a) { H }", true, false},
	{"if (a) { t(1); } else { H }", true, false},
	{"if (a) { t(1); } else if (b) { H }", true, false},
	{"while (a) { H }", true, false},
	{"foreach v in arr { H }", true, false},
	{"function f(p) { H } f(1);", true, true},
	{"switch (a) { case 1 { H } default { t(1); } }", true, false},
	{"switch (a) { case 1 { t(1); } default { H } }", true, false},
	{"if (a) { return 1; H }", true, false},
	{"function f(p) { if (p) { return p; H } return 2; } f(1);", true, true},
	{"while (a) { return 3; H }", true, false},
	// after a complete construct (the parser's mode flags must be back to normal)
	{"function g(q) { local z; return q; } H", true, false},
	{"function g(q) { return q; } if (a) { H }", true, false},
	{"function g(q) { return q; } function f(p) { H } f(1);", true, true},
	{"x = a ? 1 : 2; H", true, false},
	{"switch (a) { case 1 { t(1); } default { t(2); } } H", true, false},
	// constructs of which a later part overrides, hides or makes unreachable the part with the hole
	{"function f(p) { H } function f(p) { return 1; } f(1);", true, true},
	{"switch (a) { case 1 { H } case 1 { t(1); } }", true, false},
	{"if (false) { H }", true, false},
	{"while (1 == 2) { H }", true, false},
	{"function never(p) { H }", true, true},
	{"y = {\"k\": H, \"k\": 2};", false, false},
	{"y = {\"k\": 1, \"k\": H};", false, false},
	{"y = {1: H, 1: 2, 1: 3};", false, false},
	{"y = [H, 1][1];", false, false},
	{"y = false && H;", false, false},
	{"y = true ? 1 : H;", false, false},
	{"x = H;", false, false},
	{"return H;", false, false},
	{"t(H);", false, false},
	{"y = [1, H];", false, false},
	{"y = {\"k\": H};", false, false},
	{"y = {H: 1};", false, false},
	{"y = arr[H];", false, false},
	{"y = a ? H : 2;", false, false},
	{"if (H) { t(1); }", false, false},
	{"foreach v in H { t(1); }", false, false},
	{"switch (a) { case H { t(1); } }", false, false},
	{"while (H) { t(1); }", false, false},
}

func zzFill(sv *zzsv.T, tmpl string) string {
	out := ""
	for i := 0; i < len(tmpl); i++ {
		if tmpl[i] == '%' && i+1 < len(tmpl) {
			switch tmpl[i+1] {
			case 'S':
				n := sv.Choice("body.len", 3)
				b := sv.String("body", n)
				for j := 0; j < n; j++ {
					sv.Assume(b[j] >= 0x20)
					sv.Assume(b[j] < 0x7f)
					sv.Assume(b[j] != '"' && b[j] != '\'' && b[j] != '\\' && b[j] != '/')
				}
				out += b
			case 'I':
				b := sv.String("ident", 1)
				sv.Assume(b[0] >= 'g')
				sv.Assume(b[0] <= 'm')
				out += b
			case 'X':
				// an ASCII character that no token of the language contains
				// outside string and regexp literals: control characters
				// other than blanks, # @ \ ^ ` and DEL
				b := sv.String("illegal", 1)
				c := b[0]
				sv.Assume(sv.Any(c >= 1 && c <= 8, c == 11, c == 12, c >= 14 && c <= 31, c == 127, c == '#', c == '@', c == '\\', c == '^', c == '`'))
				out += b
			case 'D':
				b := sv.String("digit", 1)
				sv.Assume(b[0] >= '0')
				sv.Assume(b[0] <= '9')
				out += b
			}
			i++
			continue
		}
		out += string(tmpl[i])
	}
	return out
}

func zzPlug(ctx string, frag string) string {
	out := ""
	for i := 0; i < len(ctx); i++ {
		if ctx[i] == 'H' {
			out += frag
		} else {
			out += string(ctx[i])
		}
	}
	return out
}

// ZZ_C13_FragmentInContext: every invalid fragment is rejected however deep
// it sits inside otherwise valid constructs; the same contexts with a valid
// fragment are accepted (so the contexts themselves are known to be valid).
func ZZ_C13_FragmentInContext(sv *zzsv.T) {
	fr := zzBadFrags[sv.Choice("fragment", len(zzBadFrags))]
	depth := 1 + sv.Choice("depth", sv.Param("ctx.depth", 2, 3))
	if strings.Contains(fr.text, "%X") {
		// (any character outside the alphabet: one context level in the quick
		// tier - the lexer meets the character the same way at every depth)
		sv.Assume(depth <= sv.Param("ctx.depth.illegalchar", 1, 2))
	}
	frag := zzFill(sv, fr.text)
	good := "7"
	inFunc := false
	isStmt := fr.stmt
	// innermost context first
	text, goodText := frag, good
	for d := 0; d < depth; d++ {
		var c zzCtx
		if d == 0 {
			c = zzContexts[sv.Choice("context", len(zzContexts))]
		} else {
			// outer levels: statement contexts only
			c = zzContexts[sv.Choice("outer", sv.Param("ctx.outer", 6, 8))]
		}
		if c.stmt && !isStmt {
			text += ";"
			goodText += ";"
		}
		if !c.stmt && isStmt {
			sv.Assume(false) // a statement fragment does not fit an expression hole
		}
		if d == 0 && c.stmt && isStmt {
			goodText = "t(2);"
		}
		text = zzPlug(c.text, text)
		goodText = zzPlug(c.text, goodText)
		inFunc = inFunc || c.inFunc
		isStmt = true
	}
	// `local` is legal inside a function
	if fr.text == "local %I;" {
		sv.Assume(!inFunc)
	}
	pre := "arr = [1, 2]; "
	bad := New(pre + text)
	ok := New(pre + goodText)
	sv.Note("script", pre+text)
	sv.Note("valid_twin", pre+goodText)
	var errBad, errOK error
	p1 := zzNoPanic(func() { errBad = bad.Prepare() })
	p2 := zzNoPanic(func() { errOK = ok.Prepare() })
	sv.Observe("prepare", errBad != nil, errOK != nil, p1, p2)
	sv.Assert("C13.context_is_valid", p2 && errOK == nil)
	sv.Assert("C13.rejected", p1 && errBad != nil)
	// rejected for good: asking again does not turn the script into a valid
	// one, and the evaluator has no program to run
	if p1 && errBad != nil {
		var again, rerr error
		p3 := zzNoPanic(func() {
			again = bad.Prepare()
			_, rerr = bad.Execute(nil)
		})
		sv.Assert("C13.rejected_again", p3 && again != nil && rerr != nil)
	}
}

var zzValidPrograms = []string{
	"if ( a > 3 ) { return true ; } else { t ( [ 1 , 2 ] ) ; } return false ;",
	"function f ( p , q ) { foreach k , v in { \"a\" : p } { t ( v [ 0 ] ) ; } return ( p + q ) ; } return f ( 1 , 2 ) ;",
	"switch ( a ) { case 1 , 2 { x = \"s\" ; } default { x = a ? 1 : 2 ; } } while ( x < 3 ) { x ++ ; }",
	"h = { \"Name\" : \"Steve\" , \"Age\" : 3 } ; b = [ 1 , [ 2 , 3 ] , { 4 : 5 } ] ; return h [ \"Name\" ] ;",
	"return t ( { \"k\" : [ 1 , 2 ] , \"j\" : { } } , ( 1 + 2 ) ) ;",
}

// ZZ_C13_Truncation: a valid program cut at a token boundary where a
// bracket is still open is rejected.
func ZZ_C13_Truncation(sv *zzsv.T) {
	prog := zzValidPrograms[sv.Choice("program", len(zzValidPrograms))]
	// token boundaries are the blanks of the spelled-out programs
	var cuts []int
	for i := 0; i < len(prog); i++ {
		if prog[i] == ' ' {
			cuts = append(cuts, i)
		}
	}
	cut := cuts[sv.Choice("cut", len(cuts))]
	text := prog[:cut]
	open := 0
	inStr := false
	for i := 0; i < len(text); i++ {
		switch {
		case text[i] == '"':
			inStr = !inStr
		case inStr:
		case text[i] == '(' || text[i] == '{' || text[i] == '[':
			open++
		case text[i] == ')' || text[i] == '}' || text[i] == ']':
			open--
		}
	}
	sv.Assume(open > 0)
	sv.Note("script", text)
	e := New(text)
	var err error
	p := zzNoPanic(func() { err = e.Prepare() })
	sv.Observe("prepare", err != nil, p)
	sv.Assert("C13.truncated_rejected", p && err != nil)
	// the untruncated program is valid
	full := New(prog)
	sv.Assert("C13.full_program_valid", full.Prepare() == nil)
}
