//go:build verif

package evalfilter

// C14 - literals mean what they spell; layout and comments mean nothing.
// The script text itself is symbolic here: the lexer runs on symbolic bytes.

import (
	"strconv"

	"github.com/skx/evalfilter/v2/lexer"
	"github.com/skx/evalfilter/v2/object"
	"github.com/skx/evalfilter/v2/token"
	"github.com/skx/evalfilter/v2/zzsv"
)

func init() {
	zzsv.Register("ZZ_C14_Strings", ZZ_C14_Strings)
	zzsv.Register("ZZ_C14_Regexps", ZZ_C14_Regexps)
	zzsv.Register("ZZ_C14_Numbers", ZZ_C14_Numbers)
	zzsv.Register("ZZ_C14_Slash", ZZ_C14_Slash)
	zzsv.Register("ZZ_C14_Layout", ZZ_C14_Layout)
	zzsv.Register("ZZ_C14_Terminates", ZZ_C14_Terminates)
	zzsv.Register("ZZ_C14_LiteralKinds", ZZ_C14_LiteralKinds)
}

// zzLitChars: n characters, each a symbolic ASCII byte (any value 1..127) or
// a concrete multi-byte character.
func zzLitChars(sv *zzsv.T, name string, n int) string {
	multi := []string{"é", "√", "日"}
	s := ""
	for k := 0; k < n; k++ {
		c := sv.Choice(name+".kind", 1+sv.Param("lit.multibyte", 1, len(multi)))
		if c == 0 {
			b := sv.String(name+".ch", 1)
			sv.Assume(b[0] >= 1)
			sv.Assume(b[0] < 0x80)
			s += b
		} else {
			s += multi[c-1]
		}
	}
	return s
}

// zzUnescape is the language's escape rule for string literals, from the
// statement: \n \r \t \" \\ , backslash-newline continuation, any other
// escaped character taken literally. ok is false when the body contains an
// unescaped delimiter or ends in a lone backslash (then it is not the body
// of one literal).
func zzUnescape(body string, delim rune) (string, bool) {
	rs := []rune(body)
	out := ""
	for i := 0; i < len(rs); i++ {
		c := rs[i]
		if c == delim {
			return "", false
		}
		if c != '\\' {
			out += string(c)
			continue
		}
		if i+1 >= len(rs) {
			return "", false
		}
		i++
		switch rs[i] {
		case '\n':
			// continuation: both characters dropped
		case 'n':
			out += "\n"
		case 'r':
			out += "\r"
		case 't':
			out += "\t"
		default:
			out += string(rs[i])
		}
	}
	return out, true
}

// ZZ_C14_Strings: a string literal denotes exactly its characters after the
// escape rules, in either quote style, through lexer, parser, compiler, VM.
func ZZ_C14_Strings(sv *zzsv.T) {
	n := sv.Choice("nchars", sv.Param("str.maxchars", 3, 4)+1)
	body := zzLitChars(sv, "s", n)
	delim := []rune{'"', '\''}[sv.Choice("quote", 2)]
	want, ok := zzUnescape(body, delim)
	sv.Assume(ok)
	src := "return " + string(delim) + body + string(delim) + ";"
	sv.Note("script", src)
	// token level
	l := lexer.New(src)
	l.NextToken() // return
	tok := l.NextToken()
	sv.Observe("token", string(tok.Type), tok.Literal)
	sv.Assert("C14.string.token", tok.Type == token.STRING && tok.Literal == want)
	// value level
	e := New(src)
	err := e.Prepare()
	sv.Assert("C14.string.prepares", err == nil)
	if err != nil {
		return
	}
	out, rerr := e.Execute(nil)
	zzDescribe(sv, "result", out, rerr)
	sv.Assert("C14.string.value", rerr == nil && zzSame(sv, out, zStr(want)))
}

// ZZ_C14_Regexps: a regexp literal denotes its pattern with backslash
// taking the next character literally, plus its i/m flags; the pattern text
// survives lexer -> parser -> compiler unchanged.
func ZZ_C14_Regexps(sv *zzsv.T) {
	n := 1 + sv.Choice("nchars", sv.Param("re.maxchars", 2, 3))
	body := zzLitChars(sv, "p", n)
	flags := []string{"", "i", "m", "im", "mi", "ii", "x", "ix"}[sv.Choice("flags", 8)]
	// reference: backslash takes the next character literally
	rs := []rune(body)
	pat := ""
	valid := true
	for i := 0; i < len(rs); i++ {
		if rs[i] == '/' {
			valid = false
		}
		if rs[i] == '\\' {
			if i+1 >= len(rs) {
				valid = false
				break
			}
			i++
		}
		pat += string(rs[i])
	}
	sv.Assume(valid)
	sv.Assume(rs[0] != '/') // `//` starts a comment
	src := "x = /" + body + "/" + flags + ";"
	sv.Note("script", src)
	l := lexer.New(src)
	l.NextToken() // x
	l.NextToken() // =
	tok := l.NextToken()
	sv.Observe("token", string(tok.Type), tok.Literal)
	wantFlags := ""
	legal := true
	for _, c := range flags {
		if c != 'i' && c != 'm' {
			legal = false
		}
		dup := false
		for _, d := range wantFlags {
			if d == c {
				dup = true
			}
		}
		if !dup {
			wantFlags += string(c)
		}
	}
	if !legal {
		sv.Assert("C14.regexp.illegal_flag", tok.Type == token.ILLEGAL)
		return
	}
	want := pat
	if wantFlags != "" {
		want = "(?" + wantFlags + ")" + pat
	}
	sv.Assert("C14.regexp.token", tok.Type == token.REGEXP && tok.Literal == want)
	// the constant that reaches the machine
	e := New(src)
	if e.Prepare() != nil {
		return
	}
	found := false
	for _, c := range e.constants {
		if r, ok := c.(*object.Regexp); ok {
			found = true
			sv.Assert("C14.regexp.constant", r.Value == want)
		}
	}
	sv.Assert("C14.regexp.constant_present", found)
}

// ZZ_C14_Numbers: integer and decimal literals denote their numeric value.
func ZZ_C14_Numbers(sv *zzsv.T) {
	nd := 1 + sv.Choice("ndigits", sv.Param("num.maxdigits", 4, 5))
	ds := sv.String("d", nd)
	val := int64(0)
	for i := 0; i < nd; i++ {
		sv.Assume(ds[i] >= '0')
		sv.Assume(ds[i] <= '9')
		val = val*10 + int64(ds[i]-'0')
	}
	form := sv.Choice("form", 4)
	var src string
	switch form {
	case 3:
		// around the largest integer: 92233720368547758dd is exact up to
		// ...07 and must be refused above - never another number
		sv.Assume(nd == 2)
		src = "return 92233720368547758" + ds + ";"
		sv.Note("script", src)
		e := New(src)
		err := e.Prepare()
		sv.Observe("prepare", err != nil)
		if err != nil {
			sv.Assert("C14.number.refused_only_when_too_large", val > 7)
			return
		}
		out, rerr := e.Execute(nil)
		zzDescribe(sv, "result", out, rerr)
		sv.Assert("C14.number.int64_boundary", rerr == nil && val <= 7 && zzSame(sv, out, zInt(9223372036854775800+val)))
		return
	case 0:
		src = "return " + ds + ";"
	case 1:
		src = "return " + ds + "..(" + ds + "+1);" // `1..2` is a range, not a malformed float
	default:
		sv.Assume(nd <= 2)
		fr := sv.String("f", 1)
		sv.Assume(fr[0] >= '0')
		sv.Assume(fr[0] <= '9')
		src = "return " + ds + "." + fr + ";"
		sv.Note("script", src)
		e := New(src)
		sv.Assume(e.Prepare() == nil)
		out, err := e.Execute(nil)
		zzDescribe(sv, "result", out, err)
		f, ok := out.(*object.Float)
		sv.Assert("C14.number.float_type", err == nil && ok)
		if ok {
			want, _ := strconv.ParseFloat(ds+"."+fr, 64)
			sv.Assert("C14.number.float_value", f.Value == want)
		}
		return
	}
	sv.Note("script", src)
	e := New(src)
	err := e.Prepare()
	sv.Assert("C14.number.prepares", err == nil)
	if err != nil {
		return
	}
	out, rerr := e.Execute(nil)
	zzDescribe(sv, "result", out, rerr)
	if form == 0 {
		sv.Assert("C14.number.int_value", rerr == nil && zzSame(sv, out, zInt(val)))
	} else {
		sv.Assert("C14.number.range", rerr == nil && zzSame(sv, out, zArr(zInt(val), zInt(val+1))))
	}
}

// ZZ_C14_Slash: `a / b` is division and `/.../` a regexp according to what
// precedes it: division exactly after ) ] identifier, integer or float.
func ZZ_C14_Slash(sv *zzsv.T) {
	type pre struct {
		text string
		div  bool
	}
	pres := []pre{{"x", true}, {"f(1)", true}, {"a[0]", true}, {"12", true}, {"1.5", true},
		{"x =", false}, {"(", false}, {"x ==", false}, {"return", false}, {"x ~=", false}, {"[", false}, {"x,", false}, {"x +", false}, {"!", false}, {"{", false}, {";", false}, {"\"s\"", false}, {"true", false}}
	p := pres[sv.Choice("preceding", len(pres))]
	src := p.text + " / b / 2"
	sv.Note("script", src)
	l := lexer.New(src)
	var types []token.Type
	for i := 0; i < 12; i++ {
		t := l.NextToken()
		if t.Type == token.EOF {
			break
		}
		types = append(types, t.Type)
	}
	nSlash, nRegexp := 0, 0
	for _, t := range types {
		if t == token.SLASH {
			nSlash++
		}
		if t == token.REGEXP {
			nRegexp++
		}
	}
	sv.Observe("tokens", nSlash, nRegexp)
	if p.div {
		sv.Assert("C14.slash.division", nSlash == 2 && nRegexp == 0)
	} else {
		sv.Assert("C14.slash.regexp", nRegexp == 1 && nSlash == 0)
	}
}

type zzTok struct {
	t token.Type
	l string
}

func zzLex(src string, max int) ([]zzTok, bool) {
	l := lexer.New(src)
	var out []zzTok
	for i := 0; i < max; i++ {
		t := l.NextToken()
		if t.Type == token.EOF {
			return out, true
		}
		out = append(out, zzTok{t.Type, t.Literal})
	}
	return out, false
}

// ZZ_C14_Layout: inserting whitespace, newlines and // comments between
// tokens never changes the token sequence.
func ZZ_C14_Layout(sv *zzsv.T) {
	corpus := [][]string{
		{"if", "(", "a", "<=", "3", ")", "{", "return", "\"x y\"", ";", "}"},
		{"x", "=", "a", "/", "2", ";", "y", "~=", "/b c/i", ";"},
		{"foreach", "k", ",", "v", "in", "1", "..", "3", "{", "n", "++", ";", "}"},
		{"return", "a", "?", "b", ":", "1.5", "**", "2", ";"},
		// a value right after the filled gap (where a comment may sit), then a slash
		{"x", "=", "1", "+", "(", "12", "/", "4", ")", ";"},
		{"t", "(", "1", ")", ";", "a", "/=", "2", ";"},
		{"y", "=", "[", "3", ",", "b", "]", "/", "c", ";"},
	}
	toks := corpus[sv.Choice("sequence", len(corpus))]
	plain := ""
	filled := ""
	for i, t := range toks {
		if i > 0 && (i%sv.Param("layout.every", 4, 3) != 1) {
			// unfilled gap: one blank in both texts
			plain += " "
			filled += " "
		} else if i > 0 {
			plain += " "
			// filler: 1-2 symbolic blank bytes, optionally a comment with
			// symbolic content
			nb := 1
			if i == sv.Param("layout.commentat", 5, 4) {
				nb = 1 + sv.Choice("nblank", sv.Param("layout.maxblank", 1, 2))
			}
			fb := sv.String("blank", nb)
			for j := 0; j < nb; j++ {
				sv.Assume(fb[j] == ' ' || fb[j] == '\t' || fb[j] == '\n' || fb[j] == '\r')
			}
			filled += fb
			if sv.Choice("comment", sv.Param("layout.comments", 2, 2)) == 1 && i == sv.Param("layout.commentat", 5, 4) {
				cb := sv.String("comment.text", 2)
				sv.Assume(cb[0] != '\n' && cb[0] != 0 && cb[0] < 0x80)
				sv.Assume(cb[1] != '\n' && cb[1] != 0 && cb[1] < 0x80)
				filled += "//" + cb + "\n"
			}
		}
		plain += t
		filled += t
	}
	if sv.Choice("trailing_comment", 2) == 1 {
		filled += " // end" // comment at end of input without a newline
	}
	sv.Note("script", plain)
	a, okA := zzLex(plain, 40)
	b, okB := zzLex(filled, 40)
	sv.Observe("ntokens", len(a), len(b))
	sv.Assert("C14.layout.terminates", okA && okB)
	sv.Assert("C14.layout.same_count", len(a) == len(b))
	if len(a) == len(b) {
		for i := range a {
			sv.Assert("C14.layout.same_token", a[i].t == b[i].t && a[i].l == b[i].l)
		}
	}
}

// ZZ_C14_Terminates: tokenisation terminates for every input: EOF is
// reached within len+2 tokens for all byte strings up to the bound.
func ZZ_C14_Terminates(sv *zzsv.T) {
	n := sv.Choice("len", sv.Param("term.maxlen", 2, 3)+1)
	src := sv.String("b", n)
	// (a single NextToken that never returns is a failure too, not a bound)
	sv.MustTerminate("C14.terminates.each_token", 5)
	_, ok := zzLex(src, n+2)
	sv.Observe("terminated", ok)
	sv.Assert("C14.terminates", ok)
}

// ZZ_C14_LiteralKinds: a literal means what it spells whatever other
// literals the script contains: a string literal with a symbolic 3-byte body
// next to decimal, integer and regexp literals that the solver can make it
// coincide with in spelling.
func ZZ_C14_LiteralKinds(sv *zzsv.T) {
	body := sv.String("s", 3)
	for i := 0; i < 3; i++ {
		sv.Assume(body[i] >= 0x20)
		sv.Assume(body[i] < 0x7f)
		sv.Assume(body[i] != '"' && body[i] != '\\')
	}
	forms := []string{
		"x = 1.5; y = /a.c/; return \"S\";",
		"x = \"S\"; return 2.5 * 2;",
		"x = \"S\"; return \"ab+\" ~= /ab+/;",
		"x = [1.5, /abc/, \"S\"]; return x[2];",
	}
	f := sv.Choice("form", len(forms))
	src := ""
	for i := 0; i < len(forms[f]); i++ {
		if forms[f][i] == 'S' {
			src += body
		} else {
			src += string(forms[f][i])
		}
	}
	sv.Note("script", src)
	e := New(src)
	err := e.Prepare()
	sv.Assert("C14.kinds.prepares", err == nil)
	if err != nil {
		return
	}
	out, rerr := e.Execute(nil)
	zzDescribe(sv, "result", out, rerr)
	switch f {
	case 0, 3:
		sv.Assert("C14.kinds.string_stays_string", rerr == nil && zzSame(sv, out, zStr(body)))
	case 1:
		sv.Assert("C14.kinds.decimal_stays_decimal", rerr == nil && zzSame(sv, out, zFloat(5)))
	default:
		sv.Assert("C14.kinds.regexp_stays_regexp", rerr == nil && zzSame(sv, out, zBool(true)))
	}
}
