//go:build verif

package evalfilter

// Shared harness vocabulary: symbolic script values, object construction,
// result comparison and the language's truth definition, all written from
// the property statements (not from the implementation).

import (
	"github.com/skx/evalfilter/v2/object"
	"github.com/skx/evalfilter/v2/zzsv"
)

const (
	tInt = iota
	tFloat
	tString
	tBool
	tNull
	tArray
	tHash
	tRegexp
	nTypes
)

var zzTypeNames = [...]string{"integer", "float", "string", "boolean", "null", "array", "hash", "regexp"}

// zv is a script value whose scalar leaves may be symbolic.
type zv struct {
	t   int
	i   int64
	f   float64
	s   string
	b   bool
	arr []zv
	hk  []zv
	hv  []zv
}

func zInt(i int64) zv     { return zv{t: tInt, i: i} }
func zFloat(f float64) zv { return zv{t: tFloat, f: f} }
func zStr(s string) zv    { return zv{t: tString, s: s} }
func zBool(b bool) zv     { return zv{t: tBool, b: b} }
func zNull() zv           { return zv{t: tNull} }
func zArr(e ...zv) zv     { return zv{t: tArray, arr: e} }

// zzASCII makes a symbolic string of exactly n printable-ASCII bytes.
func zzASCII(sv *zzsv.T, name string, n int) string {
	s := sv.String(name, n)
	for i := 0; i < len(s); i++ {
		sv.Assume(s[i] >= 0x20)
		sv.Assume(s[i] < 0x7f)
	}
	return s
}

// zzValue makes a value of type t with symbolic payload. Strings have a
// length chosen in 0..maxLen, containers 0..maxLen elements (integers).
func zzValue(sv *zzsv.T, name string, t int, maxLen int) zv {
	switch t {
	case tInt:
		return zInt(sv.Int64(name))
	case tFloat:
		return zFloat(sv.Float64(name))
	case tString:
		n := sv.Choice(name+".len", maxLen+1)
		return zStr(zzASCII(sv, name, n))
	case tBool:
		return zBool(sv.Bool(name))
	case tNull:
		return zNull()
	case tArray:
		n := sv.Choice(name+".len", maxLen+1)
		v := zv{t: tArray}
		for k := 0; k < n; k++ {
			v.arr = append(v.arr, zInt(sv.Int64(name+".el")))
		}
		return v
	case tHash:
		n := sv.Choice(name+".len", 2)
		v := zv{t: tHash}
		if n == 1 {
			v.hk = append(v.hk, zStr("k"))
			v.hv = append(v.hv, zInt(sv.Int64(name+".hv")))
		}
		return v
	case tRegexp:
		pats := []string{"a", "^b+$", "(?i)ab", ""}
		return zv{t: tRegexp, s: pats[sv.Choice(name+".pat", len(pats))]}
	}
	panic("zzValue: bad type")
}

// obj builds a fresh engine object for the value.
func (v zv) obj() object.Object {
	switch v.t {
	case tInt:
		return &object.Integer{Value: v.i}
	case tFloat:
		return &object.Float{Value: v.f}
	case tString:
		return &object.String{Value: v.s}
	case tBool:
		return &object.Boolean{Value: v.b}
	case tNull:
		return &object.Null{}
	case tArray:
		a := &object.Array{Elements: []object.Object{}}
		for _, e := range v.arr {
			a.Elements = append(a.Elements, e.obj())
		}
		return a
	case tHash:
		h := &object.Hash{Pairs: map[object.HashKey]object.HashPair{}}
		for k := range v.hk {
			ko := v.hk[k].obj()
			h.Pairs[ko.(object.Hashable).HashKey()] = object.HashPair{Key: ko, Value: v.hv[k].obj()}
		}
		return h
	case tRegexp:
		return &object.Regexp{Value: v.s}
	}
	panic("obj: bad type")
}

// zzSame reports whether the engine object out is exactly the value want
// (type and payload).
func zzSame(sv *zzsv.T, out object.Object, want zv) bool {
	if out == nil {
		return false
	}
	switch want.t {
	case tInt:
		o, ok := out.(*object.Integer)
		return ok && o.Value == want.i
	case tFloat:
		o, ok := out.(*object.Float)
		return ok && sv.FloatSame(o.Value, want.f)
	case tString:
		o, ok := out.(*object.String)
		return ok && o.Value == want.s
	case tBool:
		o, ok := out.(*object.Boolean)
		return ok && o.Value == want.b
	case tNull:
		_, ok := out.(*object.Null)
		return ok
	case tArray:
		o, ok := out.(*object.Array)
		if !ok || len(o.Elements) != len(want.arr) {
			return false
		}
		for k := range want.arr {
			if !zzSame(sv, o.Elements[k], want.arr[k]) {
				return false
			}
		}
		return true
	case tRegexp:
		o, ok := out.(*object.Regexp)
		return ok && o.Value == want.s
	}
	return false
}

// zzTruth is the language's single notion of truth, from the statement of
// C05: true, positive numbers, non-empty strings/arrays/hashes/regexps.
func zzTruth(v zv) bool {
	switch v.t {
	case tInt:
		return v.i > 0
	case tFloat:
		return v.f > 0
	case tString, tRegexp:
		return v.s != ""
	case tBool:
		return v.b
	case tArray:
		return len(v.arr) > 0
	case tHash:
		return len(v.hk) > 0
	}
	return false
}

// zzDescribe observes a result object in a replayable form (type and, for
// scalars, payload).
func zzDescribe(sv *zzsv.T, key string, out object.Object, err error) {
	if err != nil || out == nil {
		sv.Observe(key, "error-or-nil", err != nil)
		return
	}
	switch o := out.(type) {
	case *object.Integer:
		sv.Observe(key, "INTEGER", o.Value)
	case *object.Float:
		sv.Observe(key, "FLOAT", o.Value)
	case *object.String:
		sv.Observe(key, "STRING", o.Value)
	case *object.Boolean:
		sv.Observe(key, "BOOLEAN", o.Value)
	case *object.Array:
		sv.Observe(key, "ARRAY", len(o.Elements))
	default:
		sv.Observe(key, string(out.Type()))
	}
}

// zzNoPanic runs f and reports whether a Go panic escaped it.
func zzNoPanic(f func()) (ok bool) {
	defer func() {
		if r := recover(); r != nil {
			ok = false
		}
	}()
	f()
	return true
}

const (
	kValue = iota
	kError
	kUnspec
)
