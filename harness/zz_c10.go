//go:build verif

package evalfilter

// C10 (script level) - next to the sweep of the built-ins in package
// environment: whole scripts driven through New/Prepare/Execute/Run,
// including every run-time fault, panic and recovery path, under the
// confinement monitor (a path that reaches a file, network or process
// primitive, or writes anywhere but standard output, is a counterexample)
// and an adversarial process environment.

import (
	"github.com/skx/evalfilter/v2/ast"
	"github.com/skx/evalfilter/v2/lexer"
	"github.com/skx/evalfilter/v2/parser"
	"github.com/skx/evalfilter/v2/zzsv"
)

func init() {
	zzsv.Register("ZZ_C10_FaultingScripts", ZZ_C10_FaultingScripts)
	zzsv.Register("ZZ_C10_OddObjects", ZZ_C10_OddObjects)
	zzsv.Register("ZZ_C10_ScriptVariables", ZZ_C10_ScriptVariables)
	zzsv.Register("ZZ_C10_ScriptTexts", ZZ_C10_ScriptTexts)
}

// ZZ_C10_FaultingScripts: the 31 run-time fault scripts of C08 (division and
// modulo by zero, bad indexes, panic(), unknown functions, hostile format
// strings, ...) with symbolic operands.
func ZZ_C10_FaultingScripts(sv *zzsv.T) {
	sv.EnvOther("/etc/hostname")
	ZZ_C08_RuntimeFaults(sv)
}

// ZZ_C10_OddObjects: host objects the reflection layer cannot convert.
func ZZ_C10_OddObjects(sv *zzsv.T) {
	sv.EnvOther("/etc/hostname")
	ZZ_C08_OddObjects(sv)
}

// ZZ_C10_ScriptVariables: script variables live in the same name-space as
// whatever the host (or the machine itself) keeps there. A script that
// assigns a variable whose NAME is symbolic (2..8 upper-case letters; the
// solver picks the spelling that matters, if any does) a path, a boolean or
// a number, then calls a function, loops, and is run again - still touches
// nothing but standard output.
func ZZ_C10_ScriptVariables(sv *zzsv.T) {
	sv.EnvOther("/etc/hostname")
	ln := 2 + sv.Choice("name.len", 7)
	name := sv.String("name", ln)
	for i := 0; i < ln; i++ {
		sv.Assume(name[i] >= 'A' && name[i] <= 'Z')
	}
	vals := []string{"\"/tmp/zz_c10_probe\"", "true", "1", "\"|cat /etc/hostname\""}
	val := vals[sv.Choice("value", len(vals))]
	src := "ZZNAME = " + val + "; function f(p) { return p; } x = f(1); foreach v in [1, 2] { x = x + f(v); } return x;"
	sv.Note("script", src+"   (ZZNAME is a symbolic identifier)")
	p := parser.New(lexer.New(src))
	prog, err := p.Parse()
	sv.Assume(err == nil)
	zzWalk(prog, func(n ast.Node) {
		if as, ok := n.(*ast.AssignStatement); ok && as.Name != nil && as.Name.Value == "ZZNAME" {
			as.Name.Value = name
			as.Name.Token.Literal = name
		}
	})
	e := New(src)
	ok := zzNoPanic(func() {
		if zzPrepareAST(e, prog, sv.Choice("noopt", 2) == 0) != nil {
			return
		}
		sv.StdoutStart()
		_, err1 := e.Execute(nil)
		_, err2 := e.Run(nil)
		sv.StdoutEnd()
		sv.Observe("runs", err1 != nil, err2 != nil)
	})
	sv.Assert("C10.scriptvars.returns", ok)
}

// ZZ_C10_ScriptTexts: the script text is data too: texts that look like
// file names (with a dozen usual extensions), URLs or shell commands are
// only ever parsed as scripts.
func ZZ_C10_ScriptTexts(sv *zzsv.T) {
	sv.EnvOther("/etc/hostname")
	texts := []string{"/etc/hostname", "notes.script", "@/etc/passwd", "file:///etc/hostname", "http://127.0.0.1:1/x", "|ls", "`ls`", "$(ls)", "< /etc/hostname", "include \"/etc/hostname\";", "EXT"}
	txt := texts[sv.Choice("text", len(texts))]
	if txt == "EXT" {
		// (a symbolic extension would have to go through the lexer letter by
		// letter: 27^8 spellings; the usual extensions stand in for it)
		exts := []string{".script", ".txt", ".json", ".ef", ".filter", ".evalfilter", ".conf", ".js", ".lua", ".sh", ".in", ".src"}
		txt = "/etc/hostname" + exts[sv.Choice("ext", len(exts))]
	}
	sv.Note("script", txt)
	ok := zzNoPanic(func() {
		e := New(txt)
		if e.Prepare() != nil {
			return
		}
		sv.StdoutStart()
		_ = e.Dump()
		_, _ = e.Execute(nil)
		_, _ = e.Run(map[string]interface{}{"hostname": "h", "etc": 1})
		sv.StdoutEnd()
	})
	sv.Assert("C10.scripttexts.returns", ok)
}
