//go:build verif

package evalfilter

// C10 (script level) - next to the sweep of the built-ins in package
// environment: whole scripts driven through New/Prepare/Execute/Run,
// including every run-time fault, panic and recovery path, under the
// confinement monitor (a path that reaches a file, network or process
// primitive, or writes anywhere but standard output, is a counterexample)
// and an adversarial process environment.

import "github.com/skx/evalfilter/v2/zzsv"

func init() {
	zzsv.Register("ZZ_C10_FaultingScripts", ZZ_C10_FaultingScripts)
	zzsv.Register("ZZ_C10_OddObjects", ZZ_C10_OddObjects)
}

// ZZ_C10_FaultingScripts: the 31 run-time fault scripts of C08 (division and
// modulo by zero, bad indexes, panic(), unknown functions, hostile format
// strings, ...) with symbolic operands.
func ZZ_C10_FaultingScripts(sv *zzsv.T) {
	sv.EnvOther("/etc/hostname")
	ZZ_C08_RuntimeFaults(sv)
}

// ZZ_C10_OddObjects: host objects the reflection layer cannot convert.
func ZZ_C10_OddObjects(sv *zzsv.T) {
	sv.EnvOther("/etc/hostname")
	ZZ_C08_OddObjects(sv)
}
