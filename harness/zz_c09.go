//go:build verif

package evalfilter

// C09 - a deadline or cancellation stops any script promptly. Time is a
// symbolic variable: the context's Done channel becomes ready at poll K,
// K chosen by the solver in [0, maxPolls].

import (
	"strings"
	"context"

	"github.com/skx/evalfilter/v2/object"
	"github.com/skx/evalfilter/v2/zzsv"
)

func init() {
	zzsv.Register("ZZ_C09_Cancel", ZZ_C09_Cancel)
	zzsv.Register("ZZ_C09_Finishes", ZZ_C09_Finishes)
	zzsv.Register("ZZ_C09_CancelByWork", ZZ_C09_CancelByWork)
	zzsv.Register("ZZ_C09_AlreadyExpired", ZZ_C09_AlreadyExpired)
	zzsv.Register("ZZ_C09_SingleInstructions", ZZ_C09_SingleInstructions)
}

var zzSpinners = []string{
	"while (true) { t(1); }",
	"for (true) { t(1); }",
	"n = 0; while (n >= 0) { n = n + 1; t(n); }",
	"foreach x in 1..400 { t(x); foreach y in 1..400 { t(y); } }",
	"function f(n) { t(n); return f(n + 1); } return f(0);",
	"function spin() { while (true) { t(2); } } while (true) { t(1); spin(); }",
	"function g(n) { foreach x in 1..300 { t(x); } return g(n); } function f() { return g(1); } foreach a in [1, 2] { f(); }",
	"function deep(n) { if (n > 0) { return deep(n - 1); } while (true) { t(n); } } return deep(3);",
	// loops that do nothing at all (no host call, no assignment): the machine
	// must notice the deadline by itself
	"while (true) { }",
	"function spin() { while (true) { } } t(1); spin();",
	"function spin() { for (1 == 1) { } } function outer() { spin(); return 1; } t(1); return outer();",
	"function idle(n) { while (n > 0) { } return n; } foreach a in [1, 2] { t(a); idle(a); }",
}

// ZZ_C09_Cancel: wherever the script is spinning, once the context is done
// the run returns an error without any further host call, and an already
// expired context prevents execution altogether.
func ZZ_C09_Cancel(sv *zzsv.T) {
	k := sv.Choice("script", len(zzSpinners))
	maxPolls := sv.Param("maxpolls", 40, 120)
	ctx := sv.Ctx("cancel_at_poll", maxPolls)
	var pollsAtCall []int
	e := New(zzSpinners[k])
	sv.Note("script", e.Script)
	e.AddFunction("t", func(args []object.Object) object.Object {
		pollsAtCall = append(pollsAtCall, ctx.Polls)
		return &object.Void{}
	})
	if sv.Choice("prepared_before", 2) == 1 {
		// prepared once without a context, then given one and prepared again
		sv.Assume(e.Prepare() == nil)
	}
	e.SetContext(ctx)
	sv.Assume(e.Prepare() == nil)
	// from here on the run has to end: the context is done at poll K at the latest
	sv.MustTerminate("C09.stops", 4)
	useRun := sv.Choice("api", 2) == 1
	var err error
	if useRun {
		_, err = e.Run(nil)
	} else {
		_, err = e.Execute(nil)
	}
	sv.Observe("outcome", err != nil, len(pollsAtCall), ctx.Polls)
	sv.Assert("C09.cancelled_run_fails", err != nil)
	// promptness: the poll that saw the context done is the last one
	sv.Assert("C09.stops_at_once", int64(ctx.Polls) == ctx.K+1)
	for _, p := range pollsAtCall {
		// a host call happens only while every earlier poll said "not done"
		sv.Assert("C09.no_call_after_done", int64(p) <= ctx.K)
	}
	if ctx.K == 0 {
		sv.Assert("C09.expired_prevents_execution", len(pollsAtCall) == 0)
	}
}

// ZZ_C09_Finishes: a script that finishes before the deadline is unaffected.
func ZZ_C09_Finishes(sv *zzsv.T) {
	scripts := []string{
		"n = 0; while (n < 3) { n = n + 1; t(n); } return n + A;",
		"function f(p) { return p + 1; } s = 0; foreach x in [1, 2] { s = s + f(x); } return s + A;",
	}
	src := scripts[sv.Choice("script", len(scripts))]
	sv.Note("script", src)
	a := sv.Int64("A")
	mk := func(ctx context.Context, calls *int) *Eval {
		e := New(src)
		e.AddFunction("t", func(args []object.Object) object.Object {
			*calls = *calls + 1
			return &object.Void{}
		})
		e.SetVariable("A", &object.Integer{Value: a})
		if ctx != nil {
			e.SetContext(ctx)
		}
		return e
	}
	var c1, c2 int
	ctx := sv.Ctx("cancel_at_poll", 400)
	sv.Assume(ctx.K >= 200) // the deadline lies beyond the end of the script
	e1 := mk(ctx, &c1)
	e2 := mk(nil, &c2)
	sv.Assume(e1.Prepare() == nil)
	sv.Assume(e2.Prepare() == nil)
	o1, err1 := e1.Execute(nil)
	o2, err2 := e2.Execute(nil)
	zzDescribe(sv, "with_deadline", o1, err1)
	sv.Assert("C09.unaffected", err1 == nil && err2 == nil && zzSameObj(sv, o1, o2) && c1 == c2)
	sv.Assert("C09.polled_the_given_context", ctx.Polls > 0)
}

// ZZ_C09_CancelByWork: cancellation indexed by the work done: the host
// cancels the context from inside its K-th callback (K symbolic); the script
// must not get another callback in after that, and the run must fail.
func ZZ_C09_CancelByWork(sv *zzsv.T) {
	k := sv.Choice("script", 8) // (the spinners that keep calling the host)
	ctx := sv.Ctx("never_by_poll", 1000000)
	sv.Assume(ctx.K == 1000000)
	cancelAt := sv.Int64("cancel_at_call")
	sv.Assume(cancelAt >= 1)
	sv.Assume(cancelAt <= int64(sv.Param("maxcalls", 8, 20)))
	calls := int64(0)
	e := New(zzSpinners[k])
	sv.Note("script", e.Script)
	e.AddFunction("t", func(args []object.Object) object.Object {
		calls++
		if calls == cancelAt {
			ctx.Cancel()
		}
		return &object.Void{}
	})
	e.SetContext(ctx)
	sv.Assume(e.Prepare() == nil)
	_, err := e.Execute(nil)
	sv.Observe("outcome", err != nil, calls)
	sv.Assert("C09.work.cancelled_run_fails", err != nil)
	sv.Assert("C09.work.no_call_after_cancel", calls == cancelAt)
}

// ZZ_C09_AlreadyExpired: an already-expired context prevents execution
// altogether - also of scripts so short that they would be over at once:
// no host call is made and Run/Execute return an error, whether the context
// was given before Prepare only or again afterwards, on the first run and on
// later ones.
func ZZ_C09_AlreadyExpired(sv *zzsv.T) {
	scripts := []string{
		"t(1); return 1;",
		"return A;",
		"function f() { t(1); return 2; } return f();",
		"foreach x in [1] { t(x); } return 3;",
		"if (A > 0) { t(A); } return true;",
	}
	e := New(scripts[sv.Choice("script", len(scripts))])
	sv.Note("script", e.Script)
	a := sv.Int64("A")
	calls := 0
	e.AddFunction("t", func(args []object.Object) object.Object {
		calls++
		return &object.Void{}
	})
	e.SetVariable("A", &object.Integer{Value: a})
	// (the context is the harness's model of one: done from the very first
	// look at it; the standard library's cancelCtx is not modelled)
	ctx := sv.Ctx("cancel_at_poll", 0)
	// the evaluator may have been prepared (and used) before it is given the
	// context and prepared again
	if sv.Choice("prepared_before", 2) == 1 {
		sv.Assume(e.Prepare() == nil)
		_, _ = e.Execute(nil)
		calls = 0
	}
	e.SetContext(ctx)
	sv.Assume(e.Prepare() == nil)
	for run := 0; run < 2; run++ {
		var err error
		if sv.Choice("api", 2) == 1 {
			_, err = e.Run(nil)
		} else {
			_, err = e.Execute(nil)
		}
		sv.Observe("outcome", err != nil, calls)
		sv.Assert("C09.expired.run_fails", err != nil)
		sv.Assert("C09.expired.nothing_executed", calls == 0)
	}
}

// ZZ_C09_SingleInstructions: "promptly" also inside a single operation: one
// instruction whose operands are huge - a power with an astronomically large
// exponent, a modulo, a comparison, an index far outside its container, a
// string indexed far beyond its end - comes back (with a value or an error)
// and the loop around it is stopped by the deadline like any other loop.
func ZZ_C09_SingleInstructions(sv *zzsv.T) {
	bases := []string{"1", "0", "(0 - 1)", "2", "1.0"}
	b := bases[sv.Choice("base", len(bases))]
	forms := []string{
		"while (true) { x = B ** E; t(1); }",
		"function f(n) { return B ** n; } while (true) { t(f(E)); }",
		"while (true) { x = E % 7 + \"abc\"[E] + [1, 2][E]; t(1); }",
	}
	f := sv.Choice("form", len(forms))
	src := strings.ReplaceAll(forms[f], "B", b)
	sv.Note("script", src)
	// (concrete huge operands: a loop over a symbolic bound would cost a
	// solver query per iteration)
	ex := []int64{1000000000, 9000000000000000000}[sv.Choice("E", 2)]
	ctx := sv.Ctx("cancel_at_poll", sv.Param("single.maxpolls", 30, 60))
	calls := 0
	e := New(src)
	e.AddFunction("t", func(args []object.Object) object.Object {
		calls++
		return &object.Void{}
	})
	e.SetVariable("E", &object.Integer{Value: ex})
	e.SetContext(ctx)
	sv.Assume(e.Prepare() == nil)
	sv.MustTerminate("C09.single.stops", 4)
	_, err := e.Execute(nil)
	sv.Observe("outcome", err != nil, ctx.Polls)
	// (the script either fails on its own - "abc"[E] is null, null + ... is an
	// error - or is stopped by the deadline: it always ends in an error)
	sv.Assert("C09.single.ends_in_error", err != nil)
}
