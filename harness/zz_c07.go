//go:build verif

package evalfilter

// C07 - a prepared script carries no hidden state from one run to the next:
// a much-used evaluator behaves like a freshly prepared one holding the same
// variables, whatever happened in earlier runs.

import (
	"github.com/skx/evalfilter/v2/object"
	"github.com/skx/evalfilter/v2/zzsv"
)

func init() {
	zzsv.Register("ZZ_C07_Histories", ZZ_C07_Histories)
	zzsv.Register("ZZ_C07_Context", ZZ_C07_Context)
	zzsv.Register("ZZ_C07_DeepRecursion", ZZ_C07_DeepRecursion)
	zzsv.Register("ZZ_C07_LongHistory", ZZ_C07_LongHistory)
	zzsv.Register("ZZ_C07_ObjectHistory", ZZ_C07_ObjectHistory)
	zzsv.Register("ZZ_C07_Reconfigured", ZZ_C07_Reconfigured)
	zzsv.Register("ZZ_C07_ConversionFaults", ZZ_C07_ConversionFaults)
}

type zzC07Obj struct {
	F int64
	Z int64
}

var zzC07Faults = []string{
	"return v / Z;",                 // division by zero two calls deep (Z is 0)
	"panic(\"boom\");",                // panic()
	"return helper(v, 1);",          // argument-count mismatch
	"return nosuchfunction(v);",     // unknown function
	"foreach a in [1, 2] { foreach b in [3, 4] { if (b == 4) { return a + b; } } } return 0;", // early return from nested loops
	"x = 70000; x++; return x;",     // constant-pool literal
	"local q; q = v; foreach q in [v] { return q; } return 1;",
}

func zzC07Script(fault string) string {
	return "function helper(p) { return p; }\n" +
		"function inner(v) { " + fault + " }\n" +
		"function outer(v) { w = inner(v); return w + 1; }\n" +
		"n = n + 1;\n" +
		"t(n);\n" +
		"function empty() { }\n" +
		"if (F > 10) { r = 100 + outer(F); t(r); }\n" +
		"if (F == 7) { return empty(); }\n" +
		"if (F == 8) { empty(); return 200 + empty(); }\n" +
		"foreach x in [1, 2] { if (F == 5) { return x; } }\n" +
		"return n + F;"
}

func zzC07New(sv *zzsv.T, src string, trace *[]object.Object) *Eval {
	e := New(src)
	e.AddFunction("t", func(args []object.Object) object.Object {
		*trace = append(*trace, args[0])
		return &object.Void{}
	})
	return e
}

// ZZ_C07_Histories: run a script whose fault path is selected by the object
// on k objects (the solver chooses which runs fault), then on one more
// object; a fresh evaluator given the same persistent variables must agree.
func ZZ_C07_Histories(sv *zzsv.T) {
	fault := zzC07Faults[sv.Choice("fault", len(zzC07Faults))]
	src := zzC07Script(fault)
	sv.Note("script", src)
	k := sv.Param("history", 2, 3)
	var trUsed, trFresh []object.Object
	used := zzC07New(sv, src, &trUsed)
	used.SetVariable("n", &object.Integer{Value: 0})
	sv.Assume(used.Prepare() == nil)
	depth0 := used.environment.ScopeDepth()
	for i := 0; i < k; i++ {
		o := zzC07Obj{F: sv.Int64("F")}
		_, err := used.Execute(o)
		sv.Observe("history.err", err != nil)
	}
	sv.Assert("C07.scopes_do_not_accumulate", used.environment.ScopeDepth() == depth0)
	// fresh evaluator holding the same variables
	fresh := zzC07New(sv, src, &trFresh)
	persistent := []string{"n", "r", "x", "w", "q"}
	for _, name := range persistent {
		v := used.GetVariable(name)
		if _, isNull := v.(*object.Null); isNull {
			continue
		}
		if iv, ok := v.(*object.Integer); ok {
			fresh.SetVariable(name, &object.Integer{Value: iv.Value})
		} else {
			fresh.SetVariable(name, v)
		}
	}
	sv.Assume(fresh.Prepare() == nil)
	o := zzC07Obj{F: sv.Int64("F")}
	trUsed, trFresh = nil, nil
	o1, e1 := used.Execute(o)
	o2, e2 := fresh.Execute(o)
	zzDescribe(sv, "used", o1, e1)
	zzDescribe(sv, "fresh", o2, e2)
	zzCompareTwo(sv, "C07", used, fresh, o1, o2, e1, e2, trUsed, trFresh, persistent)
	sv.Assert("C07.scopes_after", used.environment.ScopeDepth() == fresh.environment.ScopeDepth())
}

// ZZ_C07_Context: the evaluator's context is part of what a run is given,
// not of its history: after k earlier runs (paths chosen by the solver), a
// run under a context that is already cancelled - or that the host cancels
// from inside its c-th callback of that run - ends exactly like the same run
// on a freshly prepared evaluator holding the same variables and a context
// in the same state.
func ZZ_C07_Context(sv *zzsv.T) {
	src := "n = n + 1; t(n); if (F > 10) { foreach x in [1, 2, 3] { t(x + F); } } if (F == 5) { t(5); return n; } t(F); return n + F;"
	sv.Note("script", src)
	k := sv.Param("history", 2, 4)
	mode := sv.Choice("cancel", 2) // 0: cancelled before the last run; 1: from inside its c-th callback
	cancelAt := int64(1 + sv.Choice("cancel_at_call", 3))
	mk := func(tr *[]object.Object, ctx *zzsv.SymCtx, live *bool) *Eval {
		e := New(src)
		calls := int64(0)
		e.AddFunction("t", func(args []object.Object) object.Object {
			*tr = append(*tr, args[0])
			if *live {
				calls++
				if mode == 1 && calls == cancelAt {
					ctx.Cancel()
				}
			}
			return &object.Void{}
		})
		e.SetContext(ctx)
		return e
	}
	var trUsed, trFresh []object.Object
	liveUsed, liveFresh := false, true
	ctxUsed := sv.Ctx("never_by_poll", 1000000)
	ctxFresh := sv.Ctx("never_by_poll2", 1000000)
	sv.Assume(ctxUsed.K == 1000000 && ctxFresh.K == 1000000)
	used := mk(&trUsed, ctxUsed, &liveUsed)
	used.SetVariable("n", &object.Integer{Value: 0})
	sv.Assume(used.Prepare() == nil)
	for i := 0; i < k; i++ {
		_, err := used.Execute(zzC07Obj{F: sv.Int64("F")})
		sv.Assert("C07.ctx.history_runs_complete", err == nil)
	}
	fresh := mk(&trFresh, ctxFresh, &liveFresh)
	if iv, ok := used.GetVariable("n").(*object.Integer); ok {
		fresh.SetVariable("n", &object.Integer{Value: iv.Value})
	}
	sv.Assume(fresh.Prepare() == nil)
	if mode == 0 {
		ctxUsed.Cancel()
		ctxFresh.Cancel()
	}
	liveUsed = true
	o := zzC07Obj{F: sv.Int64("F")}
	trUsed, trFresh = nil, nil
	o1, e1 := used.Execute(o)
	o2, e2 := fresh.Execute(o)
	zzDescribe(sv, "used", o1, e1)
	zzDescribe(sv, "fresh", o2, e2)
	zzCompareTwo(sv, "C07.ctx", used, fresh, o1, o2, e1, e2, trUsed, trFresh, []string{"n", "x"})
	if mode == 0 {
		sv.Assert("C07.ctx.cancelled_context_prevents_the_run", e1 != nil && len(trUsed) == 0)
	}
}

// ZZ_C07_DeepRecursion: "whatever happened in earlier runs" includes a run
// that went very deep: a recursion of depth D (1 100 quick, 3 000 thorough)
// that ends - at the bottom - normally, with a run-time error, with a
// panic() or with an unknown function; afterwards a shallow run on the used
// evaluator agrees with a fresh evaluator, for every value the script
// computes with.
func ZZ_C07_DeepRecursion(sv *zzsv.T) {
	sv.Param("engine.msteps", 400, 1200)
	bottoms := []string{"return B;", "return B / Z;", "panic(\"bottom\");", "return nosuch(B);", "foreach v in [1, 2] { if (v == 2) { return B / Z; } } return 0;"}
	bottom := bottoms[sv.Choice("bottom", len(bottoms))]
	src := "function d(k) { if (k <= 0) { " + bottom + " } return d(k - 1) + 1; } return d(N);"
	sv.Note("script", src)
	depth := sv.Param("deep.depth", 1100, 3000)
	b := sv.Int64("B")
	mk := func() *Eval {
		e := New(src)
		e.SetVariable("B", &object.Integer{Value: b})
		e.SetVariable("Z", &object.Integer{Value: 0})
		e.SetVariable("N", &object.Integer{Value: int64(depth)})
		return e
	}
	used := mk()
	sv.Assume(used.Prepare() == nil)
	_, err0 := used.Execute(nil)
	sv.Observe("deep.err", err0 != nil)
	// (whether so deep a recursion succeeds is not C07's business - a depth
	// limit would be a legitimate feature; what it leaves behind is)
	if bottom != "return B;" {
		sv.Assert("C07.deep.fails", err0 != nil)
	}
	fresh := mk()
	sv.Assume(fresh.Prepare() == nil)
	for _, e := range []*Eval{used, fresh} {
		e.SetVariable("N", &object.Integer{Value: 3})
		e.SetVariable("Z", &object.Integer{Value: 1})
	}
	o1, e1 := used.Execute(nil)
	o2, e2 := fresh.Execute(nil)
	zzDescribe(sv, "used", o1, e1)
	zzDescribe(sv, "fresh", o2, e2)
	zzCompareTwo(sv, "C07.deep", used, fresh, o1, o2, e1, e2, nil, nil, []string{"B", "N"})
	sv.Assert("C07.deep.scopes_after", used.environment.ScopeDepth() == fresh.environment.ScopeDepth())
}

// ZZ_C07_LongHistory: a long history (1 000 runs quick, 4 000 thorough) of
// runs that fail two calls deep inside a loop - what each one abandons must
// not add up: afterwards the used evaluator agrees with a fresh one on a run
// that succeeds and on one that fails.
func ZZ_C07_LongHistory(sv *zzsv.T) {
	sv.Param("engine.msteps", 1000, 4000)
	faults := []string{"return p / Z;", "panic(\"deep\");", "return nosuch(p);", "foreach q in [1, 2] { return q / Z; }"}
	fault := faults[sv.Choice("fault", len(faults))]
	// the failure happens two calls deep, or at the bottom of a recursion 40
	// frames deep (so that 1 000 runs abandon 40 000 frames)
	src := "function inner(p) { " + fault + " } function outer(p) { foreach v in [p, p] { x = inner(v) + 1; } return x; } n = n + 1; return outer(F) + n;"
	if sv.Choice("deep", 2) == 1 {
		src = "function inner(p) { " + fault + " } function down(k, p) { if (k <= 0) { return inner(p); } return down(k - 1, p) + 0; } function outer(p) { foreach v in [p, p] { x = down(40, v) + 1; } return x; } n = n + 1; return outer(F) + n;"
	}
	sv.Note("script", src)
	runs := sv.Param("history.runs", 1000, 4000)
	f := sv.Int64("F")
	used := New(src)
	used.SetVariable("n", &object.Integer{Value: 0})
	used.SetVariable("Z", &object.Integer{Value: 0})
	sv.Assume(used.Prepare() == nil)
	obj := zzC07Obj{F: f}
	for i := 0; i < runs; i++ {
		_, err := used.Execute(obj)
		if i == 0 {
			sv.Assert("C07.long.history_fails", err != nil)
		}
	}
	fresh := New(src)
	fresh.SetVariable("n", &object.Integer{Value: int64(runs)})
	fresh.SetVariable("Z", &object.Integer{Value: 0})
	sv.Assume(fresh.Prepare() == nil)
	sv.Assert("C07.long.scopes", used.environment.ScopeDepth() == fresh.environment.ScopeDepth())
	for _, z := range []int64{1, 0} {
		used.SetVariable("Z", &object.Integer{Value: z})
		fresh.SetVariable("Z", &object.Integer{Value: z})
		o1, e1 := used.Execute(obj)
		o2, e2 := fresh.Execute(obj)
		zzDescribe(sv, "used", o1, e1)
		zzCompareTwo(sv, "C07.long", used, fresh, o1, o2, e1, e2, nil, nil, []string{"n", "x"})
	}
}

// ZZ_C07_ObjectHistory: the objects of earlier runs are part of the history
// too: structs, pointers and maps of other shapes (a key the current object
// lacks, the same type with other values, the same pointer changed in
// place), some of those runs failing inside a function - the last run agrees
// with a fresh evaluator's run on the same object.
func ZZ_C07_ObjectHistory(sv *zzsv.T) {
	scripts := []string{
		"n = n + 1; if (G) { return F + n; } return 0 - F;",
		"function rd() { return G; } n = n + 1; if (F < 0) { panic(\"neg\"); } r = rd(); if (r) { return F; } return n;",
		"n = n + 1; foreach k in [1, 2] { if (k == F) { return G; } } return F;",
	}
	src := scripts[sv.Choice("script", len(scripts))]
	sv.Note("script", src)
	mkObj := func(name string, shape int) interface{} {
		f := sv.Int64(name + ".F")
		sv.Assume(f >= -1 && f <= 2)
		g := sv.Int64(name + ".G")
		sv.Assume(g >= 0 && g <= 1)
		switch shape {
		case 0:
			return zzC07Obj{F: f, Z: g}
		case 1:
			return map[string]interface{}{"F": f, "G": g}
		case 2:
			return map[string]interface{}{"F": f}
		default:
			return &struct {
				G int64
				F int64
			}{g, f}
		}
	}
	used := New(src)
	used.SetVariable("n", &object.Integer{Value: 0})
	sv.Assume(used.Prepare() == nil)
	k := sv.Param("objhistory", 2, 3)
	for i := 0; i < k; i++ {
		o := mkObj("h", sv.Choice("shape", 4))
		_, err := used.Execute(o)
		sv.Observe("history.err", err != nil)
	}
	last := mkObj("last", sv.Choice("lastshape", 4))
	fresh := New(src)
	fresh.SetVariable("n", &object.Integer{Value: int64(k)})
	if r, ok := used.GetVariable("r").(*object.Integer); ok {
		fresh.SetVariable("r", &object.Integer{Value: r.Value})
	}
	sv.Assume(fresh.Prepare() == nil)
	o1, e1 := used.Execute(last)
	o2, e2 := fresh.Execute(last)
	zzDescribe(sv, "used", o1, e1)
	zzCompareTwo(sv, "C07.objects", used, fresh, o1, o2, e1, e2, nil, nil, []string{"n"})
}

// ZZ_C07_Reconfigured: what the host configured *last* is what a run
// depends on, not what earlier runs saw: after runs that already called a
// host function (or a built-in), the host registers another function under
// that name, overrides a built-in, or sets a variable again; the next run on
// the used evaluator agrees with a fresh evaluator configured the same way.
func ZZ_C07_Reconfigured(sv *zzsv.T) {
	scripts := []string{
		"n = n + 1; return h(F) + len(S) + v;",
		"function w(p) { return h(p) + len(S); } n = n + 1; x = 0; foreach k in [1, 2] { x = x + w(F); } return x + v;",
	}
	src := scripts[sv.Choice("script", len(scripts))]
	sv.Note("script", src)
	f := sv.Int64("F")
	r1 := sv.Int64("r1")
	r2 := sv.Int64("r2")
	v2 := sv.Int64("v2")
	mkH := func(r int64) func([]object.Object) object.Object {
		return func(args []object.Object) object.Object {
			return &object.Integer{Value: args[0].(*object.Integer).Value + r}
		}
	}
	fakeLen := func(args []object.Object) object.Object { return &object.Integer{Value: 100} }
	obj := struct {
		F int64
		S string
	}{f, "abc"}
	used := New(src)
	used.AddFunction("h", mkH(r1))
	used.SetVariable("n", &object.Integer{Value: 0})
	used.SetVariable("v", &object.Integer{Value: 1})
	sv.Assume(used.Prepare() == nil)
	warm := 1 + sv.Choice("runs_before", 2)
	for i := 0; i < warm; i++ {
		_, err := used.Execute(obj)
		sv.Assert("C07.reconf.warm", err == nil)
	}
	what := sv.Choice("change", 4)
	fresh := New(src)
	fresh.AddFunction("h", mkH(r1))
	fresh.SetVariable("n", &object.Integer{Value: int64(warm)})
	fresh.SetVariable("v", &object.Integer{Value: 1})
	for _, e := range []*Eval{used, fresh} {
		switch what {
		case 0:
			e.AddFunction("h", mkH(r2))
		case 1:
			e.AddFunction("len", fakeLen)
		case 2:
			e.SetVariable("v", &object.Integer{Value: v2})
		default:
			e.AddFunction("h", mkH(r2))
			e.AddFunction("len", fakeLen)
			e.SetVariable("v", &object.Integer{Value: v2})
		}
	}
	sv.Assume(fresh.Prepare() == nil)
	o1, e1 := used.Execute(obj)
	o2, e2 := fresh.Execute(obj)
	zzDescribe(sv, "used", o1, e1)
	zzCompareTwo(sv, "C07.reconf", used, fresh, o1, o2, e1, e2, nil, nil, []string{"n", "x", "v"})
}

type zzC07Host struct {
	F int64
	M map[string]interface{}
	L []interface{}
}

// ZZ_C07_ConversionFaults: a run may also fail while the host object is
// being converted (a nested map of a kind the conversion cannot take). The
// host then repairs the object in place and runs again: the used evaluator
// sees the repaired containers exactly as a fresh evaluator does.
func ZZ_C07_ConversionFaults(sv *zzsv.T) {
	scripts := []string{"return string(M) + string(F);", "x = M; return len(M) + F;", "n = 0; foreach k, v in M { n = n + 1; } return n + len(L);", "return string(L);"}
	src := scripts[sv.Choice("script", len(scripts))]
	sv.Note("script", src)
	f := sv.Int64("F")
	sv.Assume(f >= 0 && f <= 9)
	inner := map[string]interface{}{"deep": map[string]int{"x": 1}, "ok": int64(2)}
	o := &zzC07Host{F: f, M: map[string]interface{}{"in": inner, "n": int64(1)}, L: []interface{}{inner, int64(3)}}
	used := New(src)
	sv.Assume(used.Prepare() == nil)
	runs := 1 + sv.Choice("failing_runs", 2)
	for i := 0; i < runs; i++ {
		var err error
		ok := zzNoPanic(func() { _, err = used.Execute(o) })
		sv.Assert("C07.convfault.nopanic", ok)
		sv.Observe("history.err", err != nil)
	}
	// repaired in place: same containers, same sizes
	inner["deep"] = "fixed"
	fresh := New(src)
	sv.Assume(fresh.Prepare() == nil)
	o1, e1 := used.Execute(o)
	o2, e2 := fresh.Execute(o)
	zzDescribe(sv, "used", o1, e1)
	sv.Assert("C07.convfault.same_failure", (e1 != nil) == (e2 != nil))
	if e1 == nil && e2 == nil {
		sv.Assert("C07.convfault.same_result", o1.Type() == o2.Type() && o1.Inspect() == o2.Inspect())
	}
}
