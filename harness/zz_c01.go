//go:build verif

package evalfilter

// C01 - expressions evaluate to the value the language defines, or to an
// error. The oracle is a three-valued table (VALUE / ERROR / UNSPEC) written
// from the property statement and the README; see DESIGN.md appendix B for
// the reading of the cells.

import (
	"math"
	"regexp"
	"strconv"
	"strings"

	"github.com/skx/evalfilter/v2/object"
	"github.com/skx/evalfilter/v2/zzsv"
)

func init() {
	zzsv.Register("ZZ_C01_Binary", ZZ_C01_Binary)
	zzsv.Register("ZZ_C01_Unary", ZZ_C01_Unary)
	zzsv.Register("ZZ_C01_Nested", ZZ_C01_Nested)
	zzsv.Register("ZZ_C01_LiteralPool", ZZ_C01_LiteralPool)
	zzsv.Register("ZZ_C01_LiteralOperands", ZZ_C01_LiteralOperands)
	zzsv.Register("ZZ_C01_MixedOperands", ZZ_C01_MixedOperands)
	zzsv.Register("ZZ_C01_Index", ZZ_C01_Index)
	zzsv.Register("ZZ_C01_UnaryLiterals", ZZ_C01_UnaryLiterals)
	zzsv.Register("ZZ_C01_PrintedForms", ZZ_C01_PrintedForms)
	zzsv.Register("ZZ_C01_NumericEdges", ZZ_C01_NumericEdges)
}

var zzBinOps = []string{"+", "-", "*", "/", "%", "**", "<", "<=", ">", ">=", "==", "!=", "~=", "!~", "in", ".."}

func zzNumeric(v zv) bool { return v.t == tInt || v.t == tFloat }

func zzAsFloat(v zv) float64 {
	if v.t == tInt {
		return float64(v.i)
	}
	return v.f
}

// zzSpecBinary is the language definition of `l op r`.
func zzSpecBinary(sv *zzsv.T, op string, l, r zv) (int, zv) {
	switch op {
	case "+", "-", "*", "/", "%", "**":
		switch {
		case l.t == tInt && r.t == tInt:
			switch op {
			case "+":
				return kValue, zInt(l.i + r.i)
			case "-":
				return kValue, zInt(l.i - r.i)
			case "*":
				return kValue, zInt(l.i * r.i)
			case "/":
				if r.i == 0 {
					return kError, zv{}
				}
				return kValue, zInt(l.i / r.i)
			case "%":
				if r.i == 0 {
					return kError, zv{}
				}
				return kValue, zInt(l.i % r.i)
			case "**":
				return kValue, zInt(int64(math.Pow(float64(l.i), float64(r.i))))
			}
		case zzNumeric(l) && zzNumeric(r):
			a, b := zzAsFloat(l), zzAsFloat(r)
			switch op {
			case "+":
				return kValue, zFloat(a + b)
			case "-":
				return kValue, zFloat(a - b)
			case "*":
				return kValue, zFloat(a * b)
			case "/":
				if b == 0 {
					return kError, zv{}
				}
				return kValue, zFloat(a / b)
			case "%":
				if b == 0 {
					return kError, zv{}
				}
				return kUnspec, zv{}
			case "**":
				return kValue, zFloat(math.Pow(a, b))
			}
		case l.t == tString && r.t == tString:
			if op == "+" {
				return kValue, zStr(l.s + r.s)
			}
			return kError, zv{}
		case l.t == tBool && r.t == tBool:
			return kUnspec, zv{}
		}
		return kError, zv{}
	case "<", "<=", ">", ">=":
		switch {
		case l.t == tInt && r.t == tInt:
			switch op {
			case "<":
				return kValue, zBool(l.i < r.i)
			case "<=":
				return kValue, zBool(l.i <= r.i)
			case ">":
				return kValue, zBool(l.i > r.i)
			default:
				return kValue, zBool(l.i >= r.i)
			}
		case zzNumeric(l) && zzNumeric(r):
			a, b := zzAsFloat(l), zzAsFloat(r)
			switch op {
			case "<":
				return kValue, zBool(a < b)
			case "<=":
				return kValue, zBool(a <= b)
			case ">":
				return kValue, zBool(a > b)
			default:
				return kValue, zBool(a >= b)
			}
		case l.t == tString && r.t == tString:
			switch op {
			case "<":
				return kValue, zBool(l.s < r.s)
			case "<=":
				return kValue, zBool(l.s <= r.s)
			case ">":
				return kValue, zBool(l.s > r.s)
			default:
				return kValue, zBool(l.s >= r.s)
			}
		case l.t == tBool && r.t == tBool:
			return kUnspec, zv{}
		}
		return kError, zv{}
	case "==", "!=":
		eq := false
		switch {
		case l.t == tInt && r.t == tInt:
			eq = l.i == r.i
		case zzNumeric(l) && zzNumeric(r):
			eq = zzAsFloat(l) == zzAsFloat(r)
		case l.t == tString && r.t == tString:
			eq = l.s == r.s
		case l.t == tBool && r.t == tBool:
			eq = l.b == r.b
		case l.t == r.t:
			return kUnspec, zv{}
		default:
			return kError, zv{}
		}
		if op == "==" {
			return kValue, zBool(eq)
		}
		return kValue, zBool(!eq)
	case "~=", "!~":
		if l.t != tString || r.t != tRegexp {
			return kError, zv{}
		}
		re, err := regexp.Compile(r.s)
		if err != nil {
			return kUnspec, zv{}
		}
		// (the subject is matched line by line, each line without its
		// surrounding blanks - environment/builtins.go, `match`)
		m := false
		for _, line := range strings.Split(l.s, "\n") {
			if re.MatchString(strings.TrimSpace(line)) {
				m = true
			}
		}
		if op == "~=" {
			return kValue, zBool(m)
		}
		return kValue, zBool(!m)
	case "in":
		switch {
		case l.t == tString && r.t == tString:
			return kValue, zBool(strings.Contains(r.s, l.s))
		case l.t == tString && r.t == tRegexp:
			return kError, zv{}
		case zzNumeric(l) && zzNumeric(r):
			return kError, zv{}
		case r.t == tArray:
			// membership by type and value (elements of the harness arrays
			// are integers)
			found := false
			for _, e := range r.arr {
				if l.t == tInt && e.t == tInt && l.i == e.i {
					found = true
				}
			}
			return kValue, zBool(found)
		}
		return kError, zv{}
	case "..":
		if l.t != tInt || r.t != tInt {
			return kError, zv{}
		}
		if l.i > r.i {
			return kError, zv{}
		}
		out := zv{t: tArray}
		for k := l.i; k <= r.i; k++ {
			out.arr = append(out.arr, zInt(k))
		}
		return kValue, out
	}
	panic("zzSpecBinary: unknown operator " + op)
}

// zzRegexSubjects: single- and multi-line subjects, with and without surrounding blanks.
var zzRegexSubjects = []string{"", "a", "bb", "AB", "xaby", " a", "bb ", "\tbb\n", "x\n bb \nx", " ", "a\n"}

// ZZ_C01_Binary: `return a OP b;` for every operator and every ordered pair
// of operand types, payloads symbolic.
func ZZ_C01_Binary(sv *zzsv.T) {
	op := zzBinOps[sv.Choice("op", len(zzBinOps))]
	lt := sv.Choice("ltype", nTypes)
	rt := sv.Choice("rtype", nTypes)
	maxLen := sv.Param("maxlen", 2, 3)
	var l, r zv
	if (op == "~=" || op == "!~") && lt == tString && rt == tRegexp {
		l = zStr(zzRegexSubjects[sv.Choice("subject", len(zzRegexSubjects))])
	} else {
		l = zzValue(sv, "a", lt, maxLen)
	}
	r = zzValue(sv, "b", rt, maxLen)
	if op == ".." && lt == tInt && rt == tInt {
		// bound the range length (larger ranges need memory proportional to
		// their length and are outside the bound)
		sv.Assume(r.i-l.i < 4 || r.i < l.i)
		sv.Assume(l.i > -1000000 && l.i < 1000000 && r.i > -1000000 && r.i < 1000000)
	}
	src := "return a " + op + " b;"
	sv.Note("script", src)
	sv.Note("types", zzTypeNames[lt]+" "+op+" "+zzTypeNames[rt])
	e := New(src)
	e.SetVariable("a", l.obj())
	e.SetVariable("b", r.obj())
	if sv.Param("alsoNoOptimize", 0, 1) == 1 && sv.Choice("noopt", 2) == 1 {
		sv.Assume(e.Prepare([]byte{NoOptimize}) == nil)
	} else {
		sv.Assume(e.Prepare() == nil)
	}
	var out object.Object
	var err error
	okRun := zzNoPanic(func() { out, err = e.Execute(nil) })
	sv.Assert("C01.binary.nopanic", okRun)
	if !okRun {
		return
	}
	kind, want := zzSpecBinary(sv, op, l, r)
	zzDescribe(sv, "result", out, err)
	switch kind {
	case kValue:
		sv.Assert("C01.binary.value.noerror", err == nil)
		if err == nil {
			sv.Assert("C01.binary.value", zzSame(sv, out, want))
		}
	case kError:
		sv.Assert("C01.binary.error", err != nil)
	case kUnspec:
		sv.Reach("C01.binary.unspec")
	}
}

var zzUnOps = []string{"-", "√", "!"}

// ZZ_C01_Unary: prefix minus and square root over all operand types.
func ZZ_C01_Unary(sv *zzsv.T) {
	op := zzUnOps[sv.Choice("op", len(zzUnOps))]
	t := sv.Choice("type", nTypes)
	v := zzValue(sv, "a", t, 2)
	// the operand reaches the operator as a variable, as a field of the host
	// object (built by reflection) or as the result of a host function
	e := New("")
	obj, expr, ok := zzProvide(sv, e, "a", v, sv.Choice("provenance", 3))
	sv.Assume(ok)
	src := "return " + op + expr + ";"
	e.Script = src
	sv.Note("script", src)
	sv.Note("types", op+zzTypeNames[t])
	sv.Assume(e.Prepare() == nil)
	out, err := e.Execute(obj)
	zzDescribe(sv, "result", out, err)
	switch {
	case op == "!":
		// `!` negates a boolean, gives true for null and false for anything else
		want := zBool(false)
		if t == tBool {
			want = zBool(!v.b)
		} else if t == tNull {
			want = zBool(true)
		}
		sv.Assert("C01.unary.value", err == nil && zzSame(sv, out, want))
	case op == "-" && t == tInt:
		sv.Assert("C01.unary.value", err == nil && zzSame(sv, out, zInt(-v.i)))
	case op == "-" && t == tFloat:
		sv.Assert("C01.unary.value", err == nil && zzSame(sv, out, zFloat(-v.f)))
	case op == "√" && t == tInt:
		sv.Assert("C01.unary.value", err == nil && zzSame(sv, out, zFloat(math.Sqrt(float64(v.i)))))
	case op == "√" && t == tFloat:
		sv.Assert("C01.unary.value", err == nil && zzSame(sv, out, zFloat(math.Sqrt(v.f))))
	default:
		sv.Assert("C01.unary.error", err != nil)
	}
}

var zzNestOps = []string{"+", "-", "*", "/", "<", "==", "!=", "%", "<=", ">", ">="}

// ZZ_C01_Nested: `(a OP1 b) OP2 c` and `a OP1 (b OP2 c)` over the scalar
// types; the expected outcome is the composition of the binary table.
func ZZ_C01_Nested(sv *zzsv.T) {
	// quick: 7 operators over integer/string/boolean; thorough adds the
	// remaining operators and float operands (nested float terms need long
	// solver time-outs).
	scal := []int{tInt, tString, tBool, tFloat}[:sv.Param("nest.types", 3, 4)]
	nops := sv.Param("nest.ops", 7, len(zzNestOps))
	op1 := zzNestOps[sv.Choice("op1", nops)]
	op2 := zzNestOps[sv.Choice("op2", nops)]
	ta := scal[sv.Choice("ta", len(scal))]
	tb := scal[sv.Choice("tb", len(scal))]
	tc := scal[sv.Choice("tc", len(scal))]
	left := sv.Choice("leftassoc", 2) == 0
	// two nested floating-point remainders: solver unknown after 20 s (not
	// registered; `%` with a float operand is covered one level deep by Binary)
	sv.Assume(!(op1 == "%" && op2 == "%" && (ta == tFloat || tb == tFloat || tc == tFloat)))
	a := zzValue(sv, "a", ta, 1)
	b := zzValue(sv, "b", tb, 1)
	c := zzValue(sv, "c", tc, 1)
	var src string
	if left {
		src = "return (a " + op1 + " b) " + op2 + " c;"
	} else {
		src = "return a " + op1 + " (b " + op2 + " c);"
	}
	sv.Note("script", src)
	sv.Note("types", zzTypeNames[ta]+","+zzTypeNames[tb]+","+zzTypeNames[tc])
	e := New(src)
	e.SetVariable("a", a.obj())
	e.SetVariable("b", b.obj())
	e.SetVariable("c", c.obj())
	sv.Assume(e.Prepare() == nil)
	out, err := e.Execute(nil)
	zzDescribe(sv, "result", out, err)
	var kind int
	var want zv
	if left {
		k1, v1 := zzSpecBinary(sv, op1, a, b)
		if k1 != kValue {
			kind = k1
		} else {
			kind, want = zzSpecBinary(sv, op2, v1, c)
		}
	} else {
		k2, v2 := zzSpecBinary(sv, op2, b, c)
		if k2 != kValue {
			kind = k2
		} else {
			kind, want = zzSpecBinary(sv, op1, a, v2)
		}
	}
	switch kind {
	case kValue:
		sv.Assert("C01.nested.value", err == nil && zzSame(sv, out, want))
	case kError:
		sv.Assert("C01.nested.error", err != nil)
	default:
		sv.Reach("C01.nested.unspec")
	}
}

// ZZ_C01_LiteralPool: literals keep their own type and value whatever other
// literals the script contains. An integer literal that is symbolic in
// [0, 70000] (so on both sides of the inline limit) is evaluated next to
// float, string and regexp literals whose printed forms the solver can make
// it coincide with.
func ZZ_C01_LiteralPool(sv *zzsv.T) {
	others := []string{"70000.0", "65535.0", "\"70000\"", "\"65535\"", "/70000/", "1.5", "\"1.5\"", "\"abc\"", "/abc/", "3.0"}
	o1 := others[sv.Choice("other1", len(others))]
	forms := []string{
		"u = OTHER; return 7001 / 3;",
		"u = OTHER; return 7001 + 1;",
		"u = OTHER; v = 7001; return v == 7001;",
		"u = [OTHER, 7001]; return u[1] * 2;",
		"u = 7001; v = OTHER; return u - 1;",
	}
	f := sv.Choice("form", len(forms))
	src := ""
	for i := 0; i < len(forms[f]); i++ {
		if i+5 <= len(forms[f]) && forms[f][i:i+5] == "OTHER" {
			src += o1
			i += 4
		} else {
			src += string(forms[f][i])
		}
	}
	sv.Note("script", src+"   (7001 is a symbolic literal)")
	l := sv.Int64("L")
	sv.Assume(l >= 0)
	sv.Assume(l <= 70000)
	prog, ok := zzParseWithLits(sv, src, []int64{l})
	sv.Assume(ok)
	e := New(src)
	sv.Assume(zzPrepareAST(e, prog, sv.Choice("noopt", 2) == 0) == nil)
	out, err := e.Execute(nil)
	zzDescribe(sv, "result", out, err)
	var want zv
	switch f {
	case 0:
		want = zInt(l / 3)
	case 1:
		want = zInt(l + 1)
	case 2:
		want = zBool(true)
	case 3:
		want = zInt(l * 2)
	default:
		want = zInt(l - 1)
	}
	sv.Assert("C01.literalpool", err == nil && zzSame(sv, out, want))
}

// ZZ_C01_LiteralOperands: the operators on integer *literals* (so through
// the compile-time folding of constant sub-expressions): three literals,
// symbolic in [0, 70000] at AST level, combined by two operators in the four
// groupings `(x o y) o z`, `x o (y o z)`, `x o ((y o z) o x)` and
// `(x o (y o z)) o x`, with and without the optimizer, against the operator
// specification.
func ZZ_C01_LiteralOperands(sv *zzsv.T) {
	ops := []string{"+", "-", "*", "==", "!=", "<", "/"}
	op1 := ops[sv.Choice("op1", len(ops))]
	op2 := ops[sv.Choice("op2", len(ops))]
	shape := sv.Choice("shape", 4)
	var src string
	switch shape {
	case 0:
		src = "return (7001 " + op1 + " 7002) " + op2 + " 7003;"
	case 1:
		src = "return 7001 " + op1 + " (7002 " + op2 + " 7003);"
	case 2:
		src = "return 7001 " + op1 + " ((7002 " + op2 + " 7003) " + op1 + " 7001);"
	default:
		src = "return (7001 " + op1 + " (7002 " + op2 + " 7003)) " + op2 + " 7001;"
	}
	sv.Note("script", src+"   (7001.. are symbolic literals)")
	h1 := op1 == "*" || op1 == "/"
	h2 := op2 == "*" || op2 == "/"
	hard := h1 || h2
	// products of products are beyond the solvers in 20 s: at most one
	// multiplicative operator, and only in the two plain groupings
	sv.Assume(!(h1 && h2))
	sv.Assume(!hard || shape < 2)
	// products and quotients of two symbolic 64-bit values are beyond the
	// solvers in 20 s: one operand of a multiplicative operator is a concrete
	// literal from a small set (the other stays symbolic)
	concrete := -1
	switch {
	case !hard:
	case shape == 0 && h1:
		concrete = 1
	case shape == 0 && h2:
		concrete = 2
	case shape == 1 && h1:
		sv.Assume(op1 != "/") // a symbolic divisor
		concrete = 0
	default:
		concrete = 2
	}
	var lits []int64
	var x []zv
	for i := 0; i < 3; i++ {
		var l int64
		if i == concrete {
			l = []int64{0, 1, 3, 256, 65535}[sv.Choice("factor", 5)]
		} else {
			l = sv.Int64("L")
			sv.Assume(l >= 0)
			sv.Assume(l <= 70000)
		}
		lits = append(lits, l)
		x = append(x, zInt(l))
	}
	prog, ok := zzParseWithLits(sv, src, lits)
	sv.Assume(ok)
	e := New(src)
	sv.Assume(zzPrepareAST(e, prog, sv.Choice("noopt", 2) == 0) == nil)
	out, err := e.Execute(nil)
	zzDescribe(sv, "result", out, err)
	// the specification, step by step
	kind := kValue
	var want zv
	step := func(op string, l, r zv) zv {
		if kind != kValue {
			return zv{}
		}
		k, v := zzSpecBinary(sv, op, l, r)
		kind = k
		return v
	}
	switch shape {
	case 0:
		want = step(op2, step(op1, x[0], x[1]), x[2])
	case 1:
		want = step(op1, x[0], step(op2, x[1], x[2]))
	case 2:
		want = step(op1, x[0], step(op1, step(op2, x[1], x[2]), x[0]))
	default:
		want = step(op2, step(op1, x[0], step(op2, x[1], x[2])), x[0])
	}
	switch kind {
	case kValue:
		sv.Assert("C01.litops.value", err == nil && zzSame(sv, out, want))
	case kError:
		sv.Assert("C01.litops.error", err != nil)
	default:
		sv.Reach("C01.litops.unspec")
	}
}

// zzMixOperand makes one operand of `X OP Y` with a chosen provenance: a literal
// written in the script (integers symbolic at AST level through the
// placeholder 7001+k; floats, strings, booleans, arrays, regexps with a few
// concrete spellings), a script variable, or a field of the host object.
// It returns the expression text and the value.
func zzMixOperand(sv *zzsv.T, vars map[string]zv, name string, concreteInt int, t int, prov int, lits *[]int64, fields map[string]interface{}) (string, zv, bool) {
	switch prov {
	case 0: // literal
		switch t {
		case tInt:
			var l int64
			if concreteInt > 0 {
				// next to a float operand the literal takes representative
				// values: the machine writes small literals into a 16-bit
				// operand and reads them back, and the solvers cannot see
				// through that inside a floating-point term
				l = []int64{0, 1, 70000, 3, 65534, 65535}[sv.Choice(name+".ilit", concreteInt)]
			} else {
				l = sv.Int64(name)
				sv.Assume(l >= 0)
				sv.Assume(l <= 70000)
			}
			*lits = append(*lits, l)
			return strconv.FormatInt(int64(7000+len(*lits)), 10), zInt(l), true
		case tFloat:
			sp := []string{"0.0", "1.0", "2.5", "70000.0"}
			fv := []float64{0, 1, 2.5, 70000}
			c := sv.Choice(name+".flit", len(sp))
			return sp[c], zFloat(fv[c]), true
		case tString:
			sp := []string{"", "a", "1", "ab"}
			c := sv.Choice(name+".slit", len(sp))
			return "\"" + sp[c] + "\"", zStr(sp[c]), true
		case tBool:
			if sv.Choice(name+".blit", 2) == 1 {
				return "true", zBool(true), true
			}
			return "false", zBool(false), true
		case tArray:
			if sv.Choice(name+".alit", 2) == 1 {
				return "[1, 2]", zArr(zInt(1), zInt(2)), true
			}
			return "[]", zArr(), true
		case tRegexp:
			return "/a/", zv{t: tRegexp, s: "a"}, true
		}
		return "", zv{}, false
	case 1: // variable
		v := zzValue(sv, name, t, 1)
		vars[name] = v
		return name, v, true
	default: // field of the host object (a string-keyed map)
		var v zv
		fname := "F" + name
		switch t {
		case tInt:
			v = zInt(sv.Int64(name))
			fields[fname] = v.i
		case tFloat:
			v = zFloat(sv.Float64(name))
			fields[fname] = v.f
		case tString:
			v = zStr(zzASCII(sv, name, sv.Choice(name+".len", 2)))
			fields[fname] = v.s
		case tBool:
			v = zBool(sv.Bool(name))
			fields[fname] = v.b
		default:
			return "", zv{}, false
		}
		return fname, v, true
	}
}

var zzAllBinOps = []string{"+", "-", "*", "/", "%", "**", "<", "<=", ">", ">=", "==", "!=", "~=", "!~", "in", "..", "&&", "||"}

// ZZ_C01_MixedOperands: `return X OP Y;` where at least one operand is a
// literal written in the script or a field of the host object (ZZ_C01_Binary
// has two variables): every operator incl. && and ||, every type a literal or
// field can have, with and without the optimizer - so that whatever the
// compiler and optimizer do with constant operands (folding, pooling,
// rewriting) is held against the operator specification, type and value.
func ZZ_C01_MixedOperands(sv *zzsv.T) {
	op := zzAllBinOps[sv.Choice("op", len(zzAllBinOps))]
	// quick: literal and field operands; thorough adds a variable on one side
	provs := [][2]int{{0, 0}, {0, 2}, {2, 0}, {2, 2}, {0, 1}, {1, 0}, {2, 1}, {1, 2}}
	pp := provs[sv.Choice("provenances", sv.Param("mixed.provs", 4, 8))]
	lp, rp := pp[0], pp[1]
	litTypes := []int{tInt, tFloat, tString, tBool, tArray, tRegexp}
	fldTypes := []int{tInt, tFloat, tString, tBool}
	pick := func(name string, prov int) int {
		switch prov {
		case 0:
			return litTypes[sv.Choice(name, len(litTypes))]
		case 2:
			return fldTypes[sv.Choice(name, len(fldTypes))]
		}
		return sv.Choice(name, nTypes)
	}
	lt := pick("ltype", lp)
	rt := pick("rtype", rp)
	e := New("")
	var lits []int64
	fields := map[string]interface{}{}
	vars := map[string]zv{}
	xs, x, ok1 := zzMixOperand(sv, vars, "a", zzIf(rt == tFloat, 6, 0), lt, lp, &lits, fields)
	sv.Assume(ok1)
	ys, y, ok2 := zzMixOperand(sv, vars, "b", zzIf(lt == tFloat, 6, 0), rt, rp, &lits, fields)
	sv.Assume(ok2)
	for _, n := range []string{"a", "b"} {
		if v, ok := vars[n]; ok {
			e.SetVariable(n, v.obj())
		}
	}
	if op == ".." && lt == tInt && rt == tInt {
		sv.Assume(y.i-x.i < 4 || y.i < x.i)
		sv.Assume(x.i > -1000000 && x.i < 1000000 && y.i > -1000000 && y.i < 1000000)
	}
	if op == "**" && lt == tInt && rt == tInt {
		// an integer power is computed through the C library's pow: concrete
		// small exponents (a symbolic one is an uninterpreted function)
		sv.Assume(y.i == 0 || y.i == 1 || y.i == 2 || y.i == 3)
		sv.Assume(x.i >= -300 && x.i <= 300)
	}
	if (op == "*") && lt == tInt && rt == tInt {
		// symbolic x symbolic 64-bit products are beyond the solvers
		sv.Assume(y.i == 0 || y.i == 1 || y.i == 3 || y.i == 256 || y.i == 65535)
	}
	if (op == "/" || op == "%") && lt == tInt && rt == tInt {
		sv.Assume(y.i == 0 || y.i == 1 || y.i == 3 || y.i == 256 || y.i == 65535)
	}
	src := "return " + xs + " " + op + " " + ys + ";"
	e.Script = src
	sv.Note("script", src+"   (7001.. are symbolic literals)")
	sv.Note("types", zzTypeNames[lt]+" "+op+" "+zzTypeNames[rt])
	prog, ok := zzParseWithLits(sv, src, lits)
	sv.Assume(ok)
	var perr error
	okPrep := zzNoPanic(func() { perr = zzPrepareAST(e, prog, sv.Choice("noopt", 2) == 0) })
	sv.Assert("C01.mixed.prepare.nopanic", okPrep)
	if !okPrep {
		return
	}
	var obj interface{}
	if len(fields) > 0 {
		obj = fields
	}
	var kind int
	var want zv
	switch op {
	case "&&":
		kind, want = kValue, zBool(zzTruth(x) && zzTruth(y))
	case "||":
		kind, want = kValue, zBool(zzTruth(x) || zzTruth(y))
	default:
		kind, want = zzSpecBinary(sv, op, x, y)
	}
	if perr != nil {
		// a constant expression may be rejected when the script is prepared
		// only where running it would have been an error
		sv.Assert("C01.mixed.prepare.error_only_for_error", kind != kValue)
		return
	}
	var out object.Object
	var err error
	okRun := zzNoPanic(func() { out, err = e.Execute(obj) })
	sv.Assert("C01.mixed.nopanic", okRun)
	if !okRun {
		return
	}
	zzDescribe(sv, "result", out, err)
	switch kind {
	case kValue:
		sv.Assert("C01.mixed.value", err == nil && zzSame(sv, out, want))
	case kError:
		sv.Assert("C01.mixed.error", err != nil)
	default:
		sv.Reach("C01.mixed.unspec")
	}
}

// ZZ_C01_Index: the index operator on a string that reaches it as a
// variable, as a field of the host object or as the result of a host
// function, alone and inside a larger expression: characters, not bytes;
// null outside the string.
func ZZ_C01_Index(sv *zzsv.T) {
	n := sv.Choice("nchars", sv.Param("index.maxchars", 3, 4)+1)
	s, chars := zzChars(sv, "s", n)
	i := sv.Int64("i")
	e := New("")
	obj, expr, ok := zzProvide(sv, e, "s", zStr(s), sv.Choice("provenance", 3))
	sv.Assume(ok)
	form := sv.Choice("form", 3)
	switch form {
	case 0:
		e.Script = "return " + expr + "[i];"
	case 1:
		e.Script = "return " + expr + "[i] == " + expr + "[i];"
	default:
		e.Script = "return \"<\" + " + expr + "[i + 1 - 1];"
	}
	sv.Note("script", e.Script)
	e.SetVariable("i", &object.Integer{Value: i})
	sv.Assume(e.Prepare() == nil)
	out, err := e.Execute(obj)
	zzDescribe(sv, "result", out, err)
	in := i >= 0 && i < int64(n)
	switch form {
	case 0:
		sv.Assert("C01.index.noerror", err == nil)
		if err != nil {
			return
		}
		if in {
			for k := 0; k < n; k++ {
				if i == int64(k) {
					sv.Assert("C01.index.char", zzSame(sv, out, zStr(chars[k])))
				}
			}
		} else {
			sv.Assert("C01.index.null", zzSame(sv, out, zNull()))
		}
	case 1:
		if in {
			sv.Assert("C01.index.eq", err == nil && zzSame(sv, out, zBool(true)))
		} else {
			sv.Reach("C01.index.unspec") // null == null
		}
	default:
		if in {
			for k := 0; k < n; k++ {
				if i == int64(k) {
					sv.Assert("C01.index.concat", err == nil && zzSame(sv, out, zStr("<"+chars[k])))
				}
			}
		} else {
			sv.Assert("C01.index.concat.error", err != nil) // string + null
		}
	}
}

func zzIf(c bool, a, b int) int {
	if c {
		return a
	}
	return b
}

// ZZ_C01_UnaryLiterals: prefix operators on literals and on constant
// sub-expressions (what a compile-time rewrite sees): -L, !L, √L, -(-L),
// !(!L), -(L1 - L2), !(L1 == L2), !(L1 && L2), -(L1 * 1), with and without
// the optimizer, against the specification of the operators.
func ZZ_C01_UnaryLiterals(sv *zzsv.T) {
	l1 := sv.Int64("L1")
	l2 := sv.Int64("L2")
	sv.Assume(l1 >= 0 && l1 <= 70000 && l2 >= 0 && l2 <= 70000)
	neg := func(v zv) (int, zv) {
		switch v.t {
		case tInt:
			return kValue, zInt(-v.i)
		case tFloat:
			return kValue, zFloat(-v.f)
		}
		return kError, zv{}
	}
	not := func(v zv) (int, zv) {
		switch v.t {
		case tBool:
			return kValue, zBool(!v.b)
		case tNull:
			return kValue, zBool(true)
		}
		return kValue, zBool(false)
	}
	type form struct {
		src  string
		eval func() (int, zv)
	}
	bin := func(op string, a, b zv, then func(zv) (int, zv)) (int, zv) {
		k, v := zzSpecBinary(sv, op, a, b)
		if k != kValue {
			return k, v
		}
		return then(v)
	}
	A, B := zInt(l1), zInt(l2)
	forms := []form{
		{"return -7001;", func() (int, zv) { return neg(A) }},
		{"return !7001;", func() (int, zv) { return not(A) }},
		{"return -(-7001);", func() (int, zv) { _, v := neg(A); return neg(v) }},
		{"return !(!7001);", func() (int, zv) { _, v := not(A); return not(v) }},
		{"return -(7001 - 7002);", func() (int, zv) { return bin("-", A, B, neg) }},
		{"return !(7001 == 7002);", func() (int, zv) { return bin("==", A, B, not) }},
		{"return !(7001 < 7002);", func() (int, zv) { return bin("<", A, B, not) }},
		{"return !(7001 && 7002);", func() (int, zv) { return not(zBool(zzTruth(A) && zzTruth(B))) }},
		{"return !(7001 || 7002);", func() (int, zv) { return not(zBool(zzTruth(A) || zzTruth(B))) }},
		{"return -(7001 + 7002) + 7001;", func() (int, zv) {
			return bin("+", A, B, func(v zv) (int, zv) { _, n := neg(v); return zzSpecBinary(sv, "+", n, A) })
		}},
		{"return -7001 - 7002;", func() (int, zv) { _, n := neg(A); return zzSpecBinary(sv, "-", n, B) }},
		{"return -\"s\";", func() (int, zv) { return kError, zv{} }},
		{"return !\"s\";", func() (int, zv) { return kValue, zBool(false) }},
		{"return !\"\";", func() (int, zv) { return kValue, zBool(false) }},
		{"return -true;", func() (int, zv) { return kError, zv{} }},
		{"return !true;", func() (int, zv) { return kValue, zBool(false) }},
		{"return !false;", func() (int, zv) { return kValue, zBool(true) }},
		{"return -2.5;", func() (int, zv) { return kValue, zFloat(-2.5) }},
		{"return !2.5;", func() (int, zv) { return kValue, zBool(false) }},
		{"return -[1];", func() (int, zv) { return kError, zv{} }},
		{"return ![];", func() (int, zv) { return kValue, zBool(false) }},
		{"return √16;", func() (int, zv) { return kUnspec, zv{} }}, // (known finding of C03: folded to an integer)
		{"return √2.25;", func() (int, zv) { return kValue, zFloat(1.5) }},
		{"return √\"s\";", func() (int, zv) { return kError, zv{} }},
		{"return -(√2.25);", func() (int, zv) { return kValue, zFloat(-1.5) }},
	}
	f := forms[sv.Choice("form", len(forms))]
	sv.Note("script", f.src+"   (7001, 7002 are symbolic literals)")
	prog, ok := zzParseWithLits(sv, f.src, []int64{l1, l2})
	sv.Assume(ok)
	e := New(f.src)
	var perr error
	okp := zzNoPanic(func() { perr = zzPrepareAST(e, prog, sv.Choice("noopt", 2) == 0) })
	sv.Assert("C01.unarylit.prepare.nopanic", okp)
	if !okp {
		return
	}
	kind, want := f.eval()
	if perr != nil {
		sv.Assert("C01.unarylit.prepare.error_only_for_error", kind != kValue)
		return
	}
	out, err := e.Execute(nil)
	zzDescribe(sv, "result", out, err)
	switch kind {
	case kValue:
		sv.Assert("C01.unarylit.value", err == nil && zzSame(sv, out, want))
	case kError:
		sv.Assert("C01.unarylit.error", err != nil)
	default:
		sv.Reach("C01.unarylit.unspec")
	}
}

// ZZ_C01_PrintedForms: the printed form of a result is part of the value:
// floats of every magnitude (whole numbers beyond 2^53 and 2^63, tiny
// fractions, negative zero, infinities) print the way the language prints
// floats - the shortest decimal that reads back the same, never an
// exponent - integers print in decimal, arrays print their elements; and
// `in`, which looks for an element of the same type and printed form, finds
// exactly the elements that are there.
func ZZ_C01_PrintedForms(sv *zzsv.T) {
	floats := []float64{0.5, 2.5, 100, 1e15, 9007199254740993, 4e18, 9.3e18, 9223372036854775808, 1.6e19, 2e19, 1e21, 1e300, -9.3e18, -1e19, 1e-7, -0.0, 0, 1.0 / 3}
	a := floats[sv.Choice("a", len(floats))]
	forms := []string{"return a;", "return a * 1.0;", "return a + i;", "return [a, i];", "return a in [i, a];", "return (a / 2.0) in [a, a * 1.5];", "return i in [a];", "return a * a;"}
	f := sv.Choice("form", len(forms))
	i := sv.Int64("i")
	sv.Assume(i >= 0 && i <= 3)
	e := New(forms[f])
	sv.Note("script", e.Script)
	e.SetVariable("a", &object.Float{Value: a})
	e.SetVariable("i", &object.Integer{Value: i})
	if sv.Choice("noopt", 2) == 1 {
		sv.Assume(e.Prepare([]byte{NoOptimize}) == nil)
	} else {
		sv.Assume(e.Prepare() == nil)
	}
	out, err := e.Execute(nil)
	zzDescribe(sv, "result", out, err)
	sv.Assert("C01.printed.noerror", err == nil && out != nil)
	if err != nil || out == nil {
		return
	}
	pf := func(x float64) string { return strconv.FormatFloat(x, 'f', -1, 64) }
	switch f {
	case 0:
		sv.Assert("C01.printed.float", out.Type() == object.FLOAT && out.Inspect() == pf(a))
	case 1:
		sv.Assert("C01.printed.float", out.Type() == object.FLOAT && out.Inspect() == pf(a*1.0))
	case 2:
		sv.Assert("C01.printed.float", out.Type() == object.FLOAT && out.Inspect() == pf(a+float64(i)))
	case 3:
		sv.Assert("C01.printed.array", out.Type() == object.ARRAY && out.Inspect() == "["+pf(a)+", "+strconv.FormatInt(i, 10)+"]")
	case 4:
		sv.Assert("C01.printed.in", zzSame(sv, out, zBool(true)))
	case 5:
		// a/2 equals a or 1.5a only for zeros and infinities
		half := a / 2
		sv.Assert("C01.printed.in", zzSame(sv, out, zBool(half == a || half == a*1.5)))
	case 6:
		// an integer is not an element of an array that holds only a float
		sv.Assert("C01.printed.in", zzSame(sv, out, zBool(false)))
	default:
		sv.Assert("C01.printed.float", out.Type() == object.FLOAT && out.Inspect() == pf(a*a))
	}
}

// ZZ_C01_NumericEdges: int mixed with float is computed and compared in
// float - also at the edges: the extreme integers, integers beyond 2^53,
// whole floats outside the 64-bit range, infinities, the two zeros. Concrete
// operands (the edge values), all comparison and arithmetic operators, both
// operand orders, with and without the optimizer.
func ZZ_C01_NumericEdges(sv *zzsv.T) {
	ints := []int64{math.MinInt64, math.MaxInt64, math.MinInt64 + 1, 9007199254740993, -9007199254740993, 0, -1, 1, 4611686018427387904}
	floats := []float64{-1e19, 1e19, -9223372036854775808.0, 9223372036854775808.0, 9223372036854775807.0, 9007199254740992.0, 9007199254740994.0, 0.0, math.Copysign(0, -1), 0.5, -1.0, math.Inf(1), math.Inf(-1), 4611686018427387904.0}
	ops := []string{"==", "!=", "<", "<=", ">", ">=", "+", "-", "*", "/"}
	i := ints[sv.Choice("int", len(ints))]
	f := floats[sv.Choice("float", len(floats))]
	op := ops[sv.Choice("op", len(ops))]
	intFirst := sv.Choice("int_first", 2) == 1
	var l, r zv
	if intFirst {
		l, r = zInt(i), zFloat(f)
	} else {
		l, r = zFloat(f), zInt(i)
	}
	src := "return a " + op + " b;"
	sv.Note("script", src)
	e := New(src)
	e.SetVariable("a", l.obj())
	e.SetVariable("b", r.obj())
	if sv.Choice("noopt", 2) == 1 {
		sv.Assume(e.Prepare([]byte{NoOptimize}) == nil)
	} else {
		sv.Assume(e.Prepare() == nil)
	}
	out, err := e.Execute(nil)
	zzDescribe(sv, "result", out, err)
	kind, want := zzSpecBinary(sv, op, l, r)
	switch kind {
	case kValue:
		sv.Assert("C01.edges.value", err == nil && zzSame(sv, out, want))
	case kError:
		sv.Assert("C01.edges.error", err != nil)
	default:
		sv.Reach("C01.edges.unspec")
	}
}
