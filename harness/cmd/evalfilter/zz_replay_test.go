//go:build verif

package main

import (
	"testing"

	"github.com/skx/evalfilter/v2/zzsv"
)

func TestZZReplay(t *testing.T) {
	if !zzsv.RunCases() {
		t.Skip("no VERIF_CASES")
	}
}
