//go:build verif

package main

// C20 (driver part) - the command-line driver is one more faithful front
// end: `evalfilter run [-json file] [-no-optimizer] [-timeout d] script`
// reports the type, printed value and truth (or the error) that Execute
// gives for that script on the decoded JSON document, and all four
// sub-commands terminate normally on any script and JSON file.
// The sub-commands are driven through their real Arguments(flag.FlagSet) +
// Execute(args); files come from sv.File.

import (
	"encoding/json"
	"flag"
	"fmt"

	"github.com/skx/evalfilter/v2"
	"github.com/skx/evalfilter/v2/zzsv"
)

func init() {
	zzsv.Register("ZZ_C20_DriverRun", ZZ_C20_DriverRun)
	zzsv.Register("ZZ_C20_DriverTerminates", ZZ_C20_DriverTerminates)
}

var zzDriverScripts = []string{
	"return 1 + 2;",
	"return Name;",
	"return Count * 2.5;",
	"return Count > 3;",
	"return Tags;",
	"return Meta;",
	"return Missing;",
	"return Count / 0;",
	"return nosuch(1);",
	"if (Count > 3) { return \"big\"; }",
	"return (1 == 1) ? Name : 3 * 4;",
	"this is ( not a script",
	"print(Name, \"\\n\"); return len(Tags) == 2;",
	"return Tags[1] ~= /^b/;",
	"return \"100%\";",
	"return [Name, \"%d\", Count % 4];",
}

var zzDriverDocs = []string{
	"",                       // no -json flag
	"{\"Name\": \"steve\", \"Count\": 5, \"Tags\": [\"a\", \"b\"], \"Meta\": {\"k\": 1.5, \"n\": null}}",
	"{\"Name\": \"\", \"Count\": -2, \"Tags\": [], \"Meta\": {}}",
	"{\"Name\": \"50%d off %\", \"Count\": 7, \"Tags\": [\"a%s\", \"%v\"], \"Meta\": {\"k%\": 2}}",
	"{\"Name\": 3",           // invalid JSON
	"[1, 2]",                 // valid JSON, wrong shape
	"<unreadable>",           // the file does not exist
}

func zzNoPanic(f func()) (ok bool) {
	defer func() {
		if r := recover(); r != nil {
			ok = false
		}
	}()
	f()
	return true
}

// ZZ_C20_DriverRun: `run` prints exactly what Execute gives for the same
// script on the decoded document.
func ZZ_C20_DriverRun(sv *zzsv.T) {
	src := zzDriverScripts[sv.Choice("script", len(zzDriverScripts))]
	d := sv.Choice("document", len(zzDriverDocs))
	noopt := sv.Choice("no-optimizer", 2) == 1
	timeout := sv.Choice("timeout", 3) // none, a generous one, one that has expired before the script starts
	sv.Note("script", src)
	sv.Note("document", zzDriverDocs[d])
	scriptFile := sv.File("script.in", src)
	var args []string
	jsonFile := ""
	switch {
	case d == 0:
	case zzDriverDocs[d] == "<unreadable>":
		jsonFile = "/nonexistent/zz-no-such-file.json"
	default:
		jsonFile = sv.File("obj.json", zzDriverDocs[d])
	}
	if jsonFile != "" {
		args = append(args, "-json", jsonFile)
	}
	if noopt {
		args = append(args, "-no-optimizer")
	}
	if timeout == 1 {
		args = append(args, "-timeout", "5s")
	}
	if timeout == 2 {
		args = append(args, "-timeout", "1ns")
	}
	args = append(args, scriptFile)
	// the driver, through its real flag definitions
	r := &runCmd{}
	fs := flag.NewFlagSet("run", flag.ContinueOnError)
	r.Arguments(fs)
	perr := fs.Parse(args)
	sv.Assert("C20.driver.flags_parse", perr == nil)
	if perr != nil {
		return
	}
	sv.StdoutStart()
	rc := -1
	ok := zzNoPanic(func() { rc = r.Execute(fs.Args()) })
	got := sv.StdoutEnd()
	sv.Observe("driver", ok, rc, got)
	sv.Assert("C20.driver.terminates_normally", ok && rc == 0)
	if !ok {
		return
	}
	// the oracle: the library API on the same script and decoded document
	want := ""
	obj := make(map[string]interface{})
	docOK := true
	switch {
	case d == 0:
	case zzDriverDocs[d] == "<unreadable>":
		docOK = false
	default:
		if json.Unmarshal([]byte(zzDriverDocs[d]), &obj) != nil {
			docOK = false
		}
	}
	if !docOK {
		// an error line, and the script is not run
		sv.Assert("C20.driver.document_error_reported", len(got) > 5 && got[:5] == "Error")
		return
	}
	e := evalfilter.New(src)
	var flags []byte
	if noopt {
		flags = append(flags, evalfilter.NoOptimize)
	}
	sv.StdoutStart()
	if err := e.Prepare(flags); err != nil {
		sv.StdoutEnd()
		sv.Assert("C20.driver.compile_error_reported", len(got) >= 16 && got[:16] == "Error compiling:")
		return
	}
	if timeout == 2 {
		// the deadline has passed: the script is not executed and the driver
		// reports the failure (C09: an expired context prevents execution)
		sv.StdoutEnd()
		sv.Assert("C20.driver.timeout_reported", len(got) >= 21 && got[:21] == "Failed to run script:")
		return
	}
	ret, err := e.Execute(obj)
	scriptOut := sv.StdoutEnd()
	if err != nil {
		sv.Assert("C20.driver.run_error_reported", len(got) >= len(scriptOut)+21 && got[len(scriptOut):len(scriptOut)+21] == "Failed to run script:")
		return
	}
	want = scriptOut + fmt.Sprintf("Script gave result type:%s value:%s - which is '%t'.\n", ret.Type(), ret.Inspect(), ret.True())
	sv.Assert("C20.driver.reports_execute_result", len(got) >= len(want) && got[:len(want)] == want)
}

// ZZ_C20_DriverTerminates: all four sub-commands return normally on any
// script text (symbolic bytes over the lexer's alphabet) and JSON file.
func ZZ_C20_DriverTerminates(sv *zzsv.T) {
	alphabet := "a1\"'/\\\n ;(){}[],.+-*=!<>&|~?:%$\x00#"
	n := 1 + sv.Choice("len", sv.Param("driver.textlen", 2, 3))
	src := sv.String("b", n)
	for i := 0; i < n; i++ {
		var in []bool
		for j := 0; j < len(alphabet); j++ {
			in = append(in, src[i] == alphabet[j])
		}
		sv.Assume(sv.Any(in...))
	}
	sv.Note("script", src)
	file := sv.File("script.in", src)
	cmd := sv.Choice("subcommand", 4)
	sv.StdoutStart()
	rc := -1
	sv.MustTerminate("C20.driver.terminates", 10)
	ok := zzNoPanic(func() {
		switch cmd {
		case 0:
			rc = (&lexCmd{}).Execute([]string{file})
		case 1:
			rc = (&parseCmd{}).Execute([]string{file})
		case 2:
			b := &bytecodeCmd{}
			fs := flag.NewFlagSet("bytecode", flag.ContinueOnError)
			b.Arguments(fs)
			if sv.Choice("no-optimizer", 2) == 1 {
				_ = fs.Parse([]string{"-no-optimizer", file})
			} else {
				_ = fs.Parse([]string{file})
			}
			rc = b.Execute(fs.Args())
		default:
			r := &runCmd{}
			fs := flag.NewFlagSet("run", flag.ContinueOnError)
			r.Arguments(fs)
			_ = fs.Parse([]string{file, "/nonexistent/also-missing"})
			rc = r.Execute(fs.Args())
		}
	})
	sv.Observe("outcome", ok, rc)
	sv.Assert("C20.driver.subcommand_terminates", ok && rc == 0)
}
