//go:build verif

package evalfilter

// C16 - arrays, hashes, strings and ranges behave as ordered, total
// containers.

import (
	"strconv"
	"unicode/utf8"
	"github.com/skx/evalfilter/v2/object"
	"github.com/skx/evalfilter/v2/zzsv"
)

func init() {
	zzsv.Register("ZZ_C16_StringIndex", ZZ_C16_StringIndex)
	zzsv.Register("ZZ_C16_ArrayIndex", ZZ_C16_ArrayIndex)
	zzsv.Register("ZZ_C16_HashIndex", ZZ_C16_HashIndex)
	zzsv.Register("ZZ_C16_In", ZZ_C16_In)
	zzsv.Register("ZZ_C16_Len", ZZ_C16_Len)
	zzsv.Register("ZZ_C16_Iterate", ZZ_C16_Iterate)
	zzsv.Register("ZZ_C16_HostStrings", ZZ_C16_HostStrings)
	zzsv.Register("ZZ_C16_LongKeys", ZZ_C16_LongKeys)
	zzsv.Register("ZZ_C16_LiteralContainers", ZZ_C16_LiteralContainers)
	zzsv.Register("ZZ_C16_SameContainer", ZZ_C16_SameContainer)
}

// zzChars builds a string of n characters; each is a symbolic ASCII byte or
// one of three concrete multi-byte characters. It returns the string and its
// characters.
func zzChars(sv *zzsv.T, name string, n int) (string, []string) {
	multi := []string{"é", "√", "日"}
	s := ""
	var chars []string
	for k := 0; k < n; k++ {
		c := sv.Choice(name+".kind", 1+len(multi))
		var ch string
		if c == 0 {
			ch = zzASCII(sv, name+".ch", 1)
		} else {
			ch = multi[c-1]
		}
		s += ch
		chars = append(chars, ch)
	}
	return s, chars
}

// ZZ_C16_StringIndex: s[i] is character i (not byte i) in range, null out
// of range on either side, never an error.
func ZZ_C16_StringIndex(sv *zzsv.T) {
	n := sv.Choice("nchars", sv.Param("maxchars", 3, 4)+1)
	s, chars := zzChars(sv, "s", n)
	i := sv.Int64("i")
	e := New("return s[i];")
	sv.Note("script", e.Script)
	e.SetVariable("s", &object.String{Value: s})
	e.SetVariable("i", &object.Integer{Value: i})
	sv.Assume(e.Prepare() == nil)
	out, err := e.Execute(nil)
	zzDescribe(sv, "result", out, err)
	sv.Assert("C16.strindex.noerror", err == nil)
	if err != nil {
		return
	}
	if i >= 0 && i < int64(n) {
		for k := 0; k < n; k++ {
			if i == int64(k) {
				sv.Assert("C16.strindex.char", zzSame(sv, out, zStr(chars[k])))
			}
		}
	} else {
		sv.Assert("C16.strindex.null", zzSame(sv, out, zNull()))
	}
}

// zzMixedElem makes one array element of a chosen type.
func zzMixedElem(sv *zzsv.T, name string) zv {
	floats := []float64{0.5, -0.0, 10, 1e21}
	switch sv.Choice(name+".type", 4) {
	case 0:
		return zInt(sv.Int64(name))
	case 1:
		return zStr(zzASCII(sv, name, sv.Choice(name+".len", 2)))
	case 2:
		return zBool(sv.Bool(name))
	default:
		return zFloat(floats[sv.Choice(name+".f", len(floats))])
	}
}

// ZZ_C16_ArrayIndex: literal order is element order; in range gives the
// element, out of range null.
func ZZ_C16_ArrayIndex(sv *zzsv.T) {
	n := sv.Choice("n", 4)
	var els []zv
	names := []string{"x0", "x1", "x2"}
	lit := "["
	e := New("")
	for k := 0; k < n; k++ {
		v := zzMixedElem(sv, names[k])
		els = append(els, v)
		e.SetVariable(names[k], v.obj())
		if k > 0 {
			lit += ", "
		}
		lit += names[k]
	}
	lit += "]"
	i := sv.Int64("i")
	e.SetVariable("i", &object.Integer{Value: i})
	e.Script = "a = " + lit + "; return a[i];"
	sv.Note("script", e.Script)
	sv.Assume(e.Prepare() == nil)
	out, err := e.Execute(nil)
	zzDescribe(sv, "result", out, err)
	sv.Assert("C16.arrindex.noerror", err == nil)
	if err != nil {
		return
	}
	if i >= 0 && i < int64(n) {
		for k := 0; k < n; k++ {
			if i == int64(k) {
				sv.Assert("C16.arrindex.elem", zzSame(sv, out, els[k]))
			}
		}
	} else {
		sv.Assert("C16.arrindex.null", zzSame(sv, out, zNull()))
	}
}

// zzKey makes a hash key: integer (small symbolic), string (1 symbolic
// digit or letter) or float from a concrete set whose printed forms
// coincide with the integers' and strings' ("1" vs 1 vs 1.0).
func zzKey(sv *zzsv.T, name string) zv {
	floats := []float64{1, 2, 0.5}
	switch sv.Choice(name+".type", 3) {
	case 0:
		k := sv.Int64(name)
		sv.Assume(k >= 0)
		sv.Assume(k <= 3)
		return zInt(k)
	case 1:
		s := sv.String(name, 1)
		sv.Assume(s[0] >= '0')
		sv.Assume(s[0] <= '3')
		return zStr(s)
	default:
		return zFloat(floats[sv.Choice(name+".f", len(floats))])
	}
}

func zzKeyEq(sv *zzsv.T, a, b zv) bool {
	if a.t != b.t {
		return false
	}
	switch a.t {
	case tInt:
		return a.i == b.i
	case tString:
		return a.s == b.s
	default:
		return a.f == b.f
	}
}

// ZZ_C16_HashIndex: a hash literal returns for each key a value stored under
// that key (type and value of the key both matter) and null for absent keys.
func ZZ_C16_HashIndex(sv *zzsv.T) {
	sv.MapOrderNondet(sv.Param("maporder", 0, 1) == 1)
	n := 1 + sv.Choice("n", 2)
	knames := []string{"ka", "kb"}
	e := New("")
	var keys []zv
	lit := "{"
	for k := 0; k < n; k++ {
		key := zzKey(sv, knames[k])
		keys = append(keys, key)
		e.SetVariable(knames[k], key.obj())
		if k > 0 {
			lit += ", "
		}
		lit += knames[k] + ": " + []string{"100", "200"}[k]
	}
	lit += "}"
	q := zzKey(sv, "q")
	e.SetVariable("q", q.obj())
	e.Script = "h = " + lit + "; return h[q];"
	sv.Note("script", e.Script)
	sv.Assume(e.Prepare() == nil)
	out, err := e.Execute(nil)
	zzDescribe(sv, "result", out, err)
	sv.Assert("C16.hash.noerror", err == nil)
	if err != nil {
		return
	}
	m0 := zzKeyEq(sv, keys[0], q)
	m1 := n == 2 && zzKeyEq(sv, keys[1], q)
	switch {
	case m0 && m1:
		sv.Assert("C16.hash.dupkey", zzSame(sv, out, zInt(100)) || zzSame(sv, out, zInt(200)))
	case m0:
		sv.Assert("C16.hash.value", zzSame(sv, out, zInt(100)))
	case m1:
		sv.Assert("C16.hash.value", zzSame(sv, out, zInt(200)))
	default:
		sv.Assert("C16.hash.absent", zzSame(sv, out, zNull()))
	}
}

// ZZ_C16_In: `x in array` finds exactly the elements present (type and
// value), for mixed element types.
func ZZ_C16_In(sv *zzsv.T) {
	n := sv.Choice("n", 3)
	names := []string{"x0", "x1"}
	e := New("")
	var els []zv
	lit := "["
	for k := 0; k < n; k++ {
		v := zzMixedElem(sv, names[k])
		els = append(els, v)
		e.SetVariable(names[k], v.obj())
		if k > 0 {
			lit += ", "
		}
		lit += names[k]
	}
	lit += "]"
	q := zzMixedElem(sv, "q")
	e.SetVariable("q", q.obj())
	e.Script = "return q in " + lit + ";"
	sv.Note("script", e.Script)
	sv.Assume(e.Prepare() == nil)
	out, err := e.Execute(nil)
	zzDescribe(sv, "result", out, err)
	want := false
	for _, el := range els {
		if el.t != q.t {
			continue
		}
		switch q.t {
		case tInt:
			if el.i == q.i {
				want = true
			}
		case tString:
			if el.s == q.s {
				want = true
			}
		case tBool:
			if el.b == q.b {
				want = true
			}
		case tFloat:
			if sv.FloatSame(el.f, q.f) {
				want = true
			}
		}
	}
	sv.Assert("C16.in.noerror", err == nil)
	if err == nil {
		sv.Assert("C16.in.value", zzSame(sv, out, zBool(want)))
	}
}

// ZZ_C16_Len: len counts elements or characters.
func ZZ_C16_Len(sv *zzsv.T) {
	e := New("return len(c);")
	var want int64
	switch sv.Choice("kind", 3) {
	case 0:
		n := sv.Choice("nchars", 4)
		s, _ := zzChars(sv, "s", n)
		e.SetVariable("c", &object.String{Value: s})
		want = int64(n)
	case 1:
		n := sv.Choice("n", 4)
		a := zv{t: tArray}
		for k := 0; k < n; k++ {
			a.arr = append(a.arr, zzMixedElem(sv, "el"))
		}
		e.SetVariable("c", a.obj())
		want = int64(n)
	default:
		// distinct keys by construction: integer 1, string "1", float 1
		n := sv.Choice("n", 4)
		h := zv{t: tHash}
		ks := []zv{zInt(1), zStr("1"), zFloat(1)}
		for k := 0; k < n; k++ {
			h.hk = append(h.hk, ks[k])
			h.hv = append(h.hv, zInt(int64(k)))
		}
		e.SetVariable("c", h.obj())
		want = int64(n)
	}
	sv.Note("script", e.Script)
	sv.Assume(e.Prepare() == nil)
	out, err := e.Execute(nil)
	zzDescribe(sv, "result", out, err)
	sv.Assert("C16.len", err == nil && zzSame(sv, out, zInt(want)))
}

// ZZ_C16_Iterate: foreach visits each entry exactly once, in order (hashes:
// sorted key order), binding value and index/key.
func ZZ_C16_Iterate(sv *zzsv.T) {
	sv.MapOrderNondet(sv.Param("maporder", 0, 1) == 1)
	var seenK, seenV []object.Object
	e := New("foreach k, v in c { t(k, v); } return 7;")
	e.AddFunction("t", func(args []object.Object) object.Object {
		seenK = append(seenK, args[0])
		seenV = append(seenV, args[1])
		return &object.Void{}
	})
	var wantK, wantV []zv
	switch sv.Choice("kind", 4) {
	case 0: // array
		n := sv.Choice("n", 4)
		a := zv{t: tArray}
		for k := 0; k < n; k++ {
			el := zInt(sv.Int64("el"))
			a.arr = append(a.arr, el)
			wantK = append(wantK, zInt(int64(k)))
			wantV = append(wantV, el)
		}
		e.SetVariable("c", a.obj())
	case 1: // string
		n := sv.Choice("nchars", 4)
		s, chars := zzChars(sv, "s", n)
		for k := 0; k < n; k++ {
			wantK = append(wantK, zInt(int64(k)))
			wantV = append(wantV, zStr(chars[k]))
		}
		e.SetVariable("c", &object.String{Value: s})
	case 2: // range
		lo := sv.Int64("lo")
		hi := sv.Int64("hi")
		sv.Assume(lo > -1000)
		sv.Assume(lo < 1000)
		sv.Assume(hi >= lo)
		sv.Assume(hi < 1000)
		sv.Assume(hi-lo < 3)
		e.Script = "foreach k, v in lo..hi { t(k, v); } return 7;"
		e.SetVariable("lo", &object.Integer{Value: lo})
		e.SetVariable("hi", &object.Integer{Value: hi})
		for k := int64(0); lo+k <= hi; k++ {
			wantK = append(wantK, zInt(k))
			wantV = append(wantV, zInt(lo+k))
		}
	default: // hash with string keys "a" < "b" < "c" (sorted key order)
		n := sv.Choice("n", 4)
		h := zv{t: tHash}
		ks := []string{"b", "c", "a"}
		for k := 0; k < n; k++ {
			h.hk = append(h.hk, zStr(ks[k]))
			h.hv = append(h.hv, zInt(sv.Int64("hv")))
		}
		e.SetVariable("c", h.obj())
		for _, name := range []string{"a", "b", "c"} {
			for k := 0; k < n; k++ {
				if ks[k] == name {
					wantK = append(wantK, zStr(name))
					wantV = append(wantV, h.hv[k])
				}
			}
		}
	}
	sv.Note("script", e.Script)
	sv.Assume(e.Prepare() == nil)
	out, err := e.Execute(nil)
	zzDescribe(sv, "result", out, err)
	sv.Observe("visits", len(seenK))
	sv.Assert("C16.iter.noerror", err == nil && zzSame(sv, out, zInt(7)))
	sv.Assert("C16.iter.count", len(seenK) == len(wantK))
	if len(seenK) != len(wantK) {
		return
	}
	for k := range wantK {
		sv.Assert("C16.iter.key", zzSame(sv, seenK[k], wantK[k]))
		sv.Assert("C16.iter.value", zzSame(sv, seenV[k], wantV[k]))
	}
}

// ZZ_C16_LiteralContainers: containers written as literals whose elements
// or keys look alike but differ in type (a string next to a float, a string
// next to an integer literal that is symbolic in [0, 70000] - the solver
// makes the spellings coincide): elements keep their own types, alike-looking
// keys stay distinct, membership and indexing go by type and value.
func ZZ_C16_LiteralContainers(sv *zzsv.T) {
	type tc struct {
		src  string
		want func(l int64) zv
	}
	str := []string{"70000", "65535", "65536"}[sv.Choice("digits", 3)]
	sval, _ := strconv.ParseInt(str, 10, 64)
	cases := []tc{
		{"a = [\"1.5\", 1.5]; return type(a[0]) + type(a[1]);", func(l int64) zv { return zStr("stringfloat") }},
		{"a = [1.5, \"1.5\"]; return type(a[0]) + type(a[1]);", func(l int64) zv { return zStr("floatstring") }},
		{"h = {\"1.5\": \"s\", 1.5: \"f\"}; return h[1.5] + h[\"1.5\"] + string(len(h));", func(l int64) zv { return zStr("fs2") }},
		{"h = {\"2.5\": \"s\"}; return h[2.5];", func(l int64) zv { return zNull() }},
		{"return 3.5 in [\"3.5\"];", func(l int64) zv { return zBool(false) }},
		{"return \"4.5\" in [4.5, 1, 2];", func(l int64) zv { return zBool(false) }},
		{"a = [\"" + str + "\", 7001]; return type(a[0]) + type(a[1]);", func(l int64) zv { return zStr("stringinteger") }},
		{"h = {\"" + str + "\": \"s\", 7001: \"i\"}; return h[7001] + string(len(h));", func(l int64) zv {
			return zStr("i2")
		}},
		{"return 7001 in [\"" + str + "\"];", func(l int64) zv { return zBool(false) }},
		{"return \"" + str + "\" in [7001, 1];", func(l int64) zv { return zBool(false) }},
		{"n = 0; foreach k, v in {\"" + str + "\": 1, 7001: 2} { n = n + v; } return n;", func(l int64) zv { return zInt(3) }},
	}
	_ = sval
	c := cases[sv.Choice("case", len(cases))]
	sv.Note("script", c.src+"   (7001 is a symbolic literal)")
	l := sv.Int64("L")
	sv.Assume(l >= 0)
	sv.Assume(l <= 70000)
	prog, ok := zzParseWithLits(sv, c.src, []int64{l})
	sv.Assume(ok)
	e := New(c.src)
	sv.Assume(zzPrepareAST(e, prog, sv.Choice("noopt", 2) == 0) == nil)
	out, err := e.Execute(nil)
	zzDescribe(sv, "result", out, err)
	sv.Assert("C16.litcontainers", err == nil && zzSame(sv, out, c.want(l)))
}

// ZZ_C16_SameContainer: several loops over the same container object at
// the same time (nested, through a function, one after the other): each
// visits each entry exactly once.
func ZZ_C16_SameContainer(sv *zzsv.T) { zzSameIterable(sv, "C16.same") }

type zzC16Text struct{ S string }

// ZZ_C16_HostStrings: strings that come from the host may hold any bytes,
// not only valid UTF-8: len(s) characters, s[i] for every i below it and a
// foreach over s agree with each other and with how the host language
// itself walks the string (a byte that starts no valid sequence is one
// character, U+FFFD).
func ZZ_C16_HostStrings(sv *zzsv.T) {
	n := 1 + sv.Choice("nbytes", sv.Param("hoststr.maxbytes", 3, 4))
	s := sv.String("s", n)
	// bytes that matter for decoding: ASCII, continuation bytes, two- and
	// three-byte lead bytes, bytes that are never valid
	for i := 0; i < n; i++ {
		c := s[i]
		sv.Assume(sv.Any(c == 'a', c == 0x80, c == 0xA9, c == 0xC3, c == 0xE6, c == 0xFF, c == 0xC0))
	}
	var want []string
	for _, r := range s {
		want = append(want, string(r))
	}
	var seenK, seenV []object.Object
	e := New("foreach k, v in S { t(k, v); } return len(S);")
	sv.Note("script", e.Script)
	e.AddFunction("t", func(args []object.Object) object.Object {
		seenK = append(seenK, args[0])
		seenV = append(seenV, args[1])
		return &object.Void{}
	})
	sv.Assume(e.Prepare() == nil)
	var obj interface{} = zzC16Text{S: s}
	if sv.Choice("as_map", 2) == 1 {
		obj = map[string]interface{}{"S": s}
	}
	out, err := e.Execute(obj)
	zzDescribe(sv, "result", out, err)
	sv.Assert("C16.hoststr.len", err == nil && zzSame(sv, out, zInt(int64(len(want)))))
	sv.Assert("C16.hoststr.visits", len(seenK) == len(want))
	if len(seenK) != len(want) {
		return
	}
	valid := utf8.ValidString(s)
	for k := range want {
		sv.Assert("C16.hoststr.index", zzSame(sv, seenK[k], zInt(int64(k))))
		if valid {
			// (which character stands for a byte that is not valid UTF-8 is
			// not laid down by the statement: only the counts and indexes are)
			sv.Assert("C16.hoststr.char", zzSame(sv, seenV[k], zStr(want[k])))
		}
	}
}

// ZZ_C16_LongKeys: hash keys are whole strings, however long: two keys of
// 33..70 bytes that differ in a single position (any position) are two keys;
// each returns its own value, a third look-alike is absent, and the hash
// counts and walks both.
func ZZ_C16_LongKeys(sv *zzsv.T) {
	n := []int{33, 36, 47, 64, 70}[sv.Choice("keylen", 5)]
	pos := sv.Choice("position", n)
	base := "/var/log/app/2024-01-01/server-01.log/and/some/more/of/the/same/path/x"[:n]
	mk := func(c byte) string { return base[:pos] + string(c) + base[pos+1:] }
	k1, k2, k3 := mk('#'), mk('$'), mk('%')
	e := New("h = {k1: 1, k2: 2}; n = 0; foreach k, v in h { n = n + v; } return [h[k1], h[k2], h[k3], len(h), n, k1 in keys(h)];")
	sv.Note("script", e.Script)
	e.SetVariable("k1", &object.String{Value: k1})
	e.SetVariable("k2", &object.String{Value: k2})
	e.SetVariable("k3", &object.String{Value: k3})
	if sv.Choice("noopt", 2) == 1 {
		sv.Assume(e.Prepare([]byte{NoOptimize}) == nil)
	} else {
		sv.Assume(e.Prepare() == nil)
	}
	out, err := e.Execute(nil)
	zzDescribe(sv, "result", out, err)
	sv.Assert("C16.longkeys.noerror", err == nil)
	arr, ok := out.(*object.Array)
	sv.Assert("C16.longkeys.shape", ok && len(arr.Elements) == 6)
	if !ok || len(arr.Elements) != 6 {
		return
	}
	sv.Assert("C16.longkeys.own_values", zzSame(sv, arr.Elements[0], zInt(1)) && zzSame(sv, arr.Elements[1], zInt(2)))
	sv.Assert("C16.longkeys.absent", zzSame(sv, arr.Elements[2], zNull()))
	sv.Assert("C16.longkeys.count", zzSame(sv, arr.Elements[3], zInt(2)) && zzSame(sv, arr.Elements[4], zInt(3)))
	sv.Assert("C16.longkeys.listed", zzSame(sv, arr.Elements[5], zBool(true)))
}
