//go:build verif

package evalfilter

// C19 - preparing and running a script is deterministic. Every `range`
// over a Go map and every reflect MapKeys in the code under test returns an
// arbitrary permutation (the engine forks over them); the outcome must not
// depend on it.

import (
	"github.com/skx/evalfilter/v2/object"
	"github.com/skx/evalfilter/v2/zzsv"
)

func init() {
	zzsv.Register("ZZ_C19_Sandwich", ZZ_C19_Sandwich)
	zzsv.Register("ZZ_C19_LargePrograms", ZZ_C19_LargePrograms)
	zzsv.Register("ZZ_C19_EqualObjects", ZZ_C19_EqualObjects)
	zzsv.Register("ZZ_C19_HostMapKeys", ZZ_C19_HostMapKeys)
	zzsv.Register("ZZ_C19_MapOrder", ZZ_C19_MapOrder)
}

var zzC19Scripts = []string{
	"h = {\"b\": 1, \"a\": 2, \"c\": 3}; r = \"\"; foreach k, v in h { r = r + k; t(v); } return r;",
	"h = {\"b\": 1, \"a\": 2}; return string(h);",
	"h = {\"b\": 1, \"a\": 2, \"c\": 3}; return keys(h);",
	"h = {1: \"x\", \"1\": \"y\"}; return keys(h);",
	"h = {1: \"x\", \"1\": \"y\", 1.0: \"z\"}; r = \"\"; foreach k, v in h { r = r + v; } return r;",
	"h = {\"a\": 1, \"a\": 2}; return h[\"a\"];",
	"h = {\"a\": 1, \"a\": 2, \"b\": 3}; return string(h);",
	"h = {A: 1, B: 2}; r = 0; foreach k, v in h { r = r * 10 + v; } return r;",
	"function f(x) { return x + 1; } function g(x) { return f(x) * 2; } function h(x) { return g(x) - 3; } return h(A) + \"k\" + 1.5 + \"z\";",
	"return M;",
	"r = \"\"; foreach k, v in M { r = r + k; t(v); } return r;",
	"return len(M) + len(keys(M));",
	"print({\"z\": 1, \"y\": [1, 2], \"x\": {\"q\": 1, \"p\": 2}}); return 1;",
	"switch (A) { case 1, 2 { return \"low\"; } case 3 { return \"three\"; } default { return \"other\"; } }",
	"h = {A: \"x\", B: \"y\", \"5\": \"z\"}; return string(h);",
	// host-map members whose names differ only by the legacy prefix or by case
	"return count;",
	"return $count * 10 + Count;",
	// literals denote the same value in every run and every call
	"x = 1.5; x++; y = 70000; y--; return x + y;",
	"function f() { z = 2.5; z--; z -= 0.5; return z; } return f() + f();",
	// a run that ends in a panic inside a function leaves nothing behind that changes the next run
	"function g(x) { if (x >= 0) { panic(\"no\"); } return x; } y = 5; return g(A) + y;",
	"function f(x) { return x % (B - B); } y = 7; return f(A) + y;",
	// a key given twice whose values are themselves hash literals
	"h = {\"a\": {\"x\": 1, \"y\": 2}, \"a\": {\"x\": 3, \"y\": 4}}; return string(h);",
	// float keys that print alike or compare oddly: two NaNs of different bits, the two zeros
	"n = √(0 - 1); h = {n: \"a\", -n: \"b\", 1: \"c\"}; return string(h) + string(keys(h));",
	"z = 0.0; h = {z: \"a\", -z: \"b\", 0: \"c\"}; r = \"\"; foreach k, v in h { r = r + v; } return r + string(h);",
	// (last: the 4-key script multiplies permutations - thorough only)
	"h = {A: \"x\", B: \"y\", \"5\": \"z\", 2.5: \"w\"}; r = \"\"; foreach k, v in h { r = r + v; } return r;",
}

type zzC19Run struct {
	consts []string
	code   []byte
	fcode  map[string][]byte
	out    []object.Object
	errs   []bool
	errtxt []string
	trace  []object.Object
	stdout string
}

func zzC19Do(sv *zzsv.T, src string, a, b int64, hostNames bool) *zzC19Run {
	r := &zzC19Run{fcode: map[string][]byte{}}
	e := New(src)
	e.AddFunction("t", func(args []object.Object) object.Object {
		r.trace = append(r.trace, args[0])
		return &object.Void{}
	})
	e.SetVariable("A", &object.Integer{Value: a})
	e.SetVariable("B", &object.Integer{Value: b})
	if e.Prepare() != nil {
		return nil
	}
	for _, c := range e.constants {
		r.consts = append(r.consts, string(c.Type())+":"+c.Inspect())
	}
	main, _ := zzWalked(e, "")
	r.code = main
	for _, name := range []string{"f", "g", "h"} {
		if _, ok := e.functions[name]; ok {
			body, _ := zzWalked(e, name)
			r.fcode[name] = body
		}
	}
	obj := map[string]interface{}{"M": map[string]interface{}{"k2": b, "k1": a, "k3": "s"}}
	if hostNames {
		obj = map[string]interface{}{"$count": a, "count": b + 4, "Count": 9}
	}
	sv.StdoutStart()
	for i := 0; i < 2; i++ {
		o, err := e.Execute(obj)
		r.out = append(r.out, o)
		r.errs = append(r.errs, err != nil)
		if err != nil {
			r.errtxt = append(r.errtxt, err.Error())
		} else {
			r.errtxt = append(r.errtxt, "")
		}
	}
	r.stdout = sv.StdoutEnd()
	return r
}

func zzSameBytes(a, b []byte) bool {
	if len(a) != len(b) {
		return false
	}
	for i := range a {
		if a[i] != b[i] {
			return false
		}
	}
	return true
}

// ZZ_C19_MapOrder: the same script, object and variables give the same
// compiled program, results, host calls and printed forms under every map
// iteration order.
func ZZ_C19_MapOrder(sv *zzsv.T) {
	// Natively Go picks the iteration orders: a counterexample is replayed
	// up to 300 times and counts as reproduced if any try differs.
	tries := 1
	if !sv.Symbolic() {
		tries = 300
	}
	for i := 0; i < tries; i++ {
		zzC19Body(sv)
		if sv.Failed() || i+1 == tries {
			return
		}
		sv.ResetLog()
	}
}

func zzC19Body(sv *zzsv.T) {
	k := sv.Choice("script", sv.Param("scripts", len(zzC19Scripts)-1, len(zzC19Scripts)))
	src := zzC19Scripts[k]
	sv.Note("script", src)
	var a, b int64
	if k == 14 || k == 24 {
		// integer keys of one and two digits next to string/float keys:
		// representative pairs (symbolic keys would have to be rendered and
		// ordered digit by digit under every permutation)
		pairs := [][2]int64{{9, 10}, {1, 2}, {2, 10}, {4, 6}, {5, 50}, {10, 11}}
		pr := pairs[sv.Choice("keypair", len(pairs))]
		a, b = pr[0], pr[1]
	} else {
		a = sv.Int64("A")
		b = sv.Int64("B")
		sv.Assume(a >= 0)
		sv.Assume(a <= 3)
		sv.Assume(b >= 0)
		sv.Assume(b <= 3)
	}
	sv.Region("duplicate_key_in_literal", k == 5 || k == 6 || ((k == 7 || k == 14 || k == 24) && a == b))
	sv.Region("keys_printing_alike", k == 3 || k == 4)
	sv.MapOrderNondet(false)
	r1 := zzC19Do(sv, src, a, b, k == 15 || k == 16) // reference: insertion order everywhere
	sv.MapOrderNondet(true)
	r2 := zzC19Do(sv, src, a, b, k == 15 || k == 16) // every map iteration permuted
	sv.MapOrderNondet(false)
	sv.Assert("C19.prepare_agrees", (r1 == nil) == (r2 == nil))
	if r1 == nil || r2 == nil {
		return
	}
	sv.Observe("errs", r1.errs[0], r1.errs[1])
	same := len(r1.consts) == len(r2.consts)
	if same {
		for i := range r1.consts {
			if r1.consts[i] != r2.consts[i] {
				same = false
			}
		}
	}
	sv.Assert("C19.same_constants", same)
	sv.Assert("C19.same_code", zzSameBytes(r1.code, r2.code))
	for name, body := range r1.fcode {
		sv.Assert("C19.same_function_code", zzSameBytes(body, r2.fcode[name]))
	}
	for i := 0; i < 2; i++ {
		sv.Assert("C19.same_failure", r1.errs[i] == r2.errs[i])
		if !r1.errs[i] && !r2.errs[i] {
			sv.Assert("C19.same_result", r1.out[i].Type() == r2.out[i].Type() && r1.out[i].Inspect() == r2.out[i].Inspect())
		}
	}
	// every script here (re)assigns what it reads: the second run of the same
	// prepared evaluator gives what the first gave
	sv.Assert("C19.repeatable_failure", r1.errs[0] == r1.errs[1] && r1.errtxt[0] == r1.errtxt[1])
	if !r1.errs[0] && !r1.errs[1] {
		sv.Assert("C19.repeatable", r1.out[0].Type() == r1.out[1].Type() && r1.out[0].Inspect() == r1.out[1].Inspect())
	}
	sv.Assert("C19.same_calls", len(r1.trace) == len(r2.trace))
	if len(r1.trace) == len(r2.trace) {
		for i := range r1.trace {
			sv.Assert("C19.same_call_args", zzSameObj(sv, r1.trace[i], r2.trace[i]))
		}
	}
	sv.Assert("C19.same_output", r1.stdout == r2.stdout)
}

type zzC19Obj struct{ V int64 }

// ZZ_C19_Sandwich: the same object and variables give the same result
// before and after a run on another object that ended badly inside a
// function (panic(), a Go run-time panic, an error, an early return from
// nested loops): run on V=v, run on the faulting object, run on V=v again.
func ZZ_C19_Sandwich(sv *zzsv.T) {
	faults := []string{
		"if (x == 77) { panic(\"no\"); }",
		"if (x == 77) { z = x % (x - 77); }",
		"if (x == 77) { z = nosuch(x); }",
		"foreach a in [1, 2] { foreach b in [3, 4] { if (x == 77) { return a + b; } } }",
	}
	src := "function g(x) { " + faults[sv.Choice("fault", len(faults))] + " return x * 10; } function f(x) { return g(x) + 1; } y = 1; return f(V) + y;"
	sv.Note("script", src)
	v := sv.Int64("v")
	sv.Assume(v != 77)
	sv.Assume(v > -1000000 && v < 1000000)
	e := New(src)
	sv.Assume(e.Prepare() == nil)
	o1, e1 := e.Execute(zzC19Obj{V: v})
	_, e2 := e.Execute(zzC19Obj{V: 77})
	o3, e3 := e.Execute(zzC19Obj{V: v})
	zzDescribe(sv, "first", o1, e1)
	sv.Observe("middle", e2 != nil)
	sv.Assert("C19.sandwich.first", e1 == nil && zzSame(sv, o1, zInt(v*10+2)))
	sv.Assert("C19.sandwich.same_again", (e1 != nil) == (e3 != nil) && (e1 != nil || (o1.Type() == o3.Type() && o1.Inspect() == o3.Inspect())))
}

// ZZ_C19_LargePrograms: programs big enough for any whole-script budget,
// work list or table of the compiler and optimizer to matter: several
// functions, each with a long chain of constant arithmetic (K terms: 300
// quick, 700 thorough) - whatever is shared between the functions while the
// script is prepared must not depend on the order in which a Go map hands
// them out. Same compiled code, same results under every order.
func ZZ_C19_LargePrograms(sv *zzsv.T) {
	// (natively Go picks the orders: replayed up to 60 times, as above)
	tries := 1
	if !sv.Symbolic() {
		tries = 60
	}
	for i := 0; i < tries; i++ {
		zzC19Large(sv)
		if sv.Failed() || i+1 == tries {
			return
		}
		sv.ResetLog()
	}
}

func zzC19Large(sv *zzsv.T) {
	sv.Param("engine.msteps", 3000, 12000)
	terms := sv.Param("large.terms", 300, 700)
	nf := 2 + sv.Choice("functions", sv.Param("large.functions", 1, 2))
	chain := "1"
	for i := 1; i < terms; i++ {
		chain += " + 1"
	}
	src := ""
	call := ""
	for f := 0; f < nf; f++ {
		name := string(rune('p' + f))
		src += "function " + name + "() { x = " + chain + "; return type(√9) + string(x); } "
		if f > 0 {
			call += " + "
		}
		call += name + "()"
	}
	src += "return " + call + ";"
	sv.Note("script", "<"+string(rune('0'+nf))+" functions, each summing `1` a few hundred times, then type(√9)>")
	sv.MapOrderNondet(false)
	r1 := zzC19Do(sv, src, 0, 0, false)
	sv.MapOrderNondet(true)
	r2 := zzC19Do(sv, src, 0, 0, false)
	sv.MapOrderNondet(false)
	sv.Assert("C19.large.prepare_agrees", (r1 == nil) == (r2 == nil))
	if r1 == nil || r2 == nil {
		return
	}
	sv.Assert("C19.large.same_code", zzSameBytes(r1.code, r2.code))
	for name, body := range r1.fcode {
		sv.Assert("C19.large.same_function_code", zzSameBytes(body, r2.fcode[name]))
	}
	sv.Assert("C19.large.same_failure", r1.errs[0] == r2.errs[0])
	if !r1.errs[0] && !r2.errs[0] {
		sv.Assert("C19.large.same_result", r1.out[0].Type() == r2.out[0].Type() && r1.out[0].Inspect() == r2.out[0].Inspect())
	}
}

type zzC19Leaf struct {
	N *int
	S string
}

type zzC19Deep struct {
	Name  string
	Count int64
	Inner zzC19Leaf
	PLeaf *zzC19Leaf
	Arr   [2]*int
	Ch    chan int
	Any   interface{}
	PP    **int
	Tags  []string
}

// ZZ_C19_EqualObjects: two host objects that are equal in every value but
// were allocated separately (so every pointer, channel and slice in them
// lives at another address) give the same results, host-call arguments and
// printed forms - also for the fields of kinds the language cannot
// represent, however those are rendered.
func ZZ_C19_EqualObjects(sv *zzsv.T) {
	scripts := []string{
		"return Inner;", "return string(Inner);", "return PLeaf;", "return string(PLeaf) + type(PLeaf);", "return [Arr, Ch, Any, PP];",
		"t(Inner, PLeaf, Arr); return len(string(PP)) + Count;", "return sprintf(\"%v %s\", Any, Ch);", "foreach x in [Inner, PLeaf, Any] { t(x); } return Name;",
		"h = {\"a\": PLeaf, \"b\": Inner}; return string(h);", "return Tags;",
	}
	src := scripts[sv.Choice("script", len(scripts))]
	sv.Note("script", src)
	c := []int64{0, 41}[sv.Choice("Count", 2)]
	mk := func() *zzC19Deep {
		n1, n2, n3 := 7, 8, 9
		pn := &n3
		return &zzC19Deep{Name: "n", Count: c, Inner: zzC19Leaf{N: &n1, S: "s"}, PLeaf: &zzC19Leaf{N: &n2, S: "p"},
			Arr: [2]*int{&n1, &n2}, Ch: make(chan int), Any: &zzC19Leaf{N: &n1}, PP: &pn, Tags: []string{"a", "b"}}
	}
	o1, o2 := mk(), mk()
	var tr1, tr2 []object.Object
	run := func(o *zzC19Deep, tr *[]object.Object) (string, bool) {
		e := New(src)
		e.AddFunction("t", func(args []object.Object) object.Object {
			*tr = append(*tr, args...)
			return &object.Void{}
		})
		if e.Prepare() != nil {
			return "", true
		}
		out, err := e.Execute(o)
		if err != nil || out == nil {
			return "", true
		}
		return string(out.Type()) + ":" + out.Inspect(), false
	}
	r1, f1 := run(o1, &tr1)
	r2, f2 := run(o2, &tr2)
	sv.Observe("failed", f1, f2)
	sv.Assert("C19.equalobjects.same_failure", f1 == f2)
	sv.Assert("C19.equalobjects.same_result", r1 == r2)
	sv.Assert("C19.equalobjects.same_calls", len(tr1) == len(tr2))
	if len(tr1) == len(tr2) {
		for i := range tr1 {
			sv.Assert("C19.equalobjects.same_call_args", tr1[i].Type() == tr2[i].Type() && tr1[i].Inspect() == tr2[i].Inspect())
		}
	}
}

type zzC19Meta struct {
	Name string
	Meta map[interface{}]interface{}
	Num  map[string]interface{}
}

// ZZ_C19_HostMapKeys: host maps whose keys are distinct for the host but
// may coincide once converted (int 1 and int64 1, float32 0.5 and float64
// 0.5, a key and its printed form): whatever the conversion does with them,
// it does the same under every iteration order of the host's maps - same
// result or same failure, same printed forms.
func ZZ_C19_HostMapKeys(sv *zzsv.T) {
	tries := 1
	if !sv.Symbolic() {
		tries = 100
	}
	for i := 0; i < tries; i++ {
		zzC19HostMapKeys(sv)
		if sv.Failed() || i+1 == tries {
			return
		}
		sv.ResetLog()
	}
}

func zzC19HostMapKeys(sv *zzsv.T) {
	scripts := []string{"return Meta[1];", "return string(Meta);", "r = \"\"; foreach k, v in Meta { r = r + string(v); } return r;", "return keys(Meta);", "return string(Num) + Name;", "return len(Meta);",
		// host maps that refer to each other (whatever the conversion makes of the cycle, it makes the same of it every time)
		"return string(Num);", "a = Num[\"a\"]; b = Num[\"b\"]; return string(a) + \"|\" + string(b) + \"|\" + string(a[\"peer\"]);", "r = \"\"; foreach k, v in Num { r = r + k + string(len(v)); } return r;"}
	src := scripts[sv.Choice("script", len(scripts))]
	sv.Note("script", src)
	k := 0
	for i := range scripts {
		if scripts[i] == src {
			k = i
		}
	}
	mk := func() *zzC19Meta {
		if k >= 6 {
			// (two entries per map: every order of every map is explored)
			a := map[string]interface{}{"n": int64(1)}
			b := map[string]interface{}{"n": int64(2)}
			a["peer"], b["peer"] = b, a
			return &zzC19Meta{Name: "n", Num: map[string]interface{}{"a": a, "b": b}}
		}
		return &zzC19Meta{Name: "n",
			Meta: map[interface{}]interface{}{int(1): "from-int", int64(1): "from-int64", float32(0.5): "f32", float64(0.5): "f64", "1": "from-string"},
			Num:  map[string]interface{}{"a": int64(1), "b": []interface{}{int(2), int64(2)}}}
	}
	run := func(nondet bool) (string, bool) {
		sv.MapOrderNondet(nondet)
		defer sv.MapOrderNondet(false)
		e := New(src)
		if e.Prepare() != nil {
			return "", true
		}
		var out object.Object
		var err error
		if !zzNoPanic(func() { out, err = e.Execute(mk()) }) {
			return "panic", true
		}
		if err != nil || out == nil {
			return "", true
		}
		return string(out.Type()) + ":" + out.Inspect(), false
	}
	r1, f1 := run(false)
	r2, f2 := run(true)
	sv.Observe("failed", f1, f2)
	sv.Assert("C19.hostmapkeys.same_failure", f1 == f2)
	sv.Assert("C19.hostmapkeys.same_result", r1 == r2)
}
