//go:build verif

package evalfilter

// C05 - one notion of truth decides conditions, logic operators and the
// filter verdict. zzTruth (zz_common.go) is the statement's definition.

import (
	"github.com/skx/evalfilter/v2/object"
	"github.com/skx/evalfilter/v2/zzsv"
)

func init() {
	zzsv.Register("ZZ_C05_Positions", ZZ_C05_Positions)
	zzsv.Register("ZZ_C05_AndOr", ZZ_C05_AndOr)
	zzsv.Register("ZZ_C05_Bang", ZZ_C05_Bang)
}

type zzFieldInt struct{ V int64 }
type zzFieldFloat struct{ V float64 }
type zzFieldString struct{ V string }
type zzFieldBool struct{ V bool }

// zzProvide makes script name `v` denote value val with the chosen
// provenance and returns the object to run against plus the expression text
// that yields the value. prov: 0 variable (fresh object), 1 object field
// (reflection), 2 host function result (fresh object), 3 engine singleton
// via comparison (booleans only), 4 built-in result (booleans only).
func zzProvide(sv *zzsv.T, e *Eval, name string, val zv, prov int) (obj interface{}, expr string, ok bool) {
	switch prov {
	case 0:
		e.SetVariable(name, val.obj())
		return nil, name, true
	case 1:
		switch val.t {
		case tInt:
			return zzFieldInt{V: val.i}, "V", true
		case tFloat:
			return &zzFieldFloat{V: val.f}, "V", true
		case tString:
			return zzFieldString{V: val.s}, "V", true
		case tBool:
			return &zzFieldBool{V: val.b}, "V", true
		}
		return nil, "", false
	case 2:
		o := val.obj()
		e.AddFunction("host_"+name, func(args []object.Object) object.Object { return o })
		return nil, "host_" + name + "()", true
	case 3:
		if val.t != tBool {
			return nil, "", false
		}
		// (p == 1) is the engine's singleton true/false
		p := int64(0)
		if val.b {
			p = 1
		}
		e.SetVariable(name+"_p", &object.Integer{Value: p})
		return nil, "(" + name + "_p == 1)", true
	case 4:
		if val.t != tBool {
			return nil, "", false
		}
		// between() allocates a fresh boolean
		p := int64(5)
		if val.b {
			p = 2
		}
		e.SetVariable(name+"_p", &object.Integer{Value: p})
		return nil, "between(" + name + "_p, 1, 3)", true
	}
	return nil, "", false
}


// zzLiteral spells a value of type t as a literal in the script text (a few
// representative spellings per type; null has no literal).
func zzLiteral(sv *zzsv.T, name string, t int) (string, zv, bool) {
	switch t {
	case tInt:
		sp := []string{"0", "1", "(-1)", "70000"}
		vs := []int64{0, 1, -1, 70000}
		c := sv.Choice(name+".ilit", len(sp))
		return sp[c], zInt(vs[c]), true
	case tFloat:
		sp := []string{"0.0", "2.5", "(-1.5)"}
		vs := []float64{0, 2.5, -1.5}
		c := sv.Choice(name+".flit", len(sp))
		return sp[c], zFloat(vs[c]), true
	case tString:
		sp := []string{"", "a", "0"}
		c := sv.Choice(name+".slit", len(sp))
		return "\"" + sp[c] + "\"", zStr(sp[c]), true
	case tBool:
		if sv.Choice(name+".blit", 2) == 1 {
			return "true", zBool(true), true
		}
		return "false", zBool(false), true
	case tArray:
		if sv.Choice(name+".alit", 2) == 1 {
			return "[0]", zArr(zInt(0)), true
		}
		return "[]", zArr(), true
	case tHash:
		if sv.Choice(name+".hlit", 2) == 1 {
			return "{\"a\": 0}", zv{t: tHash, hk: []zv{zStr("a")}, hv: []zv{zInt(0)}}, true
		}
		return "{}", zv{t: tHash}, true
	case tRegexp:
		return "/a/", zv{t: tRegexp, s: "a"}, true
	}
	return "", zv{}, false
}

// zzOrigin makes a value of type t with the chosen origin: 0..4 as zzProvide
// (variable, object field, host function, comparison, built-in), 5 a literal
// in the script text, 6 (booleans) the result of && or || over two literals.
func zzOrigin(sv *zzsv.T, e *Eval, name string, t int, prov int, maxLen int) (obj interface{}, expr string, val zv, ok bool) {
	switch prov {
	case 5:
		expr, val, ok = zzLiteral(sv, name, t)
		return nil, expr, val, ok
	case 6:
		if t != tBool {
			return nil, "", zv{}, false
		}
		t1 := []int{tInt, tString, tBool, tFloat}[sv.Choice(name+".lt", 4)]
		t2 := []int{tInt, tString, tBool, tFloat}[sv.Choice(name+".rt", 4)]
		x, xv, _ := zzLiteral(sv, name+".l", t1)
		y, yv, _ := zzLiteral(sv, name+".r", t2)
		if sv.Choice(name+".logic", 2) == 0 {
			return nil, "(" + x + " && " + y + ")", zBool(zzTruth(xv) && zzTruth(yv)), true
		}
		return nil, "(" + x + " || " + y + ")", zBool(zzTruth(xv) || zzTruth(yv)), true
	}
	val = zzValue(sv, name, t, maxLen)
	obj, expr, ok = zzProvide(sv, e, name, val, prov)
	return obj, expr, val, ok
}

var zzTruthPositions = []string{
	"if (X) { return 1; } return 0;",
	"n = 0; while (X) { return 1; } return 0;",
	"return X ? 1 : 0;",
	"return (X && true) ? 1 : 0;",
	"return (true && X) ? 1 : 0;",
	"return (X || false) ? 1 : 0;",
	"return (false || X) ? 1 : 0;",
	"RUN",
	"return !X ? 1 : 0;",
	"if (!X) { return 1; } return 0;",
	"return (!X && true) ? 1 : 0;",
	"y = !X; return y ? 1 : 0;",
	// a ternary over the value as the condition itself (literal arms)
	"if (X ? true : false) { return 1; } return 0;",
	"if (X ? false : true) { return 0; } return 1;",
	"n = 0; while (X ? n < 1 : false) { n = n + 1; } return n;",
	"return (X ? false : true) ? 0 : 1;",
	// an even number of `!` as the whole condition: `!` of anything but false
	// and null is false, so `!!v` is true for every other value - also for the
	// falsy ones (0, "", [])
	"if (!!X) { return 1; } return 0;",
	"return !!X ? 1 : 0;",
	"n = 0; while (!!X) { return 1; } return 0;",
	"if (!!!X) { return 0; } return 1;",
	"y = !!X; if (y) { return 1; } return 0;",
}

func zzSubst(tmpl, expr string) string {
	out := ""
	for i := 0; i < len(tmpl); i++ {
		if tmpl[i] == 'X' {
			out += expr
		} else {
			out += string(tmpl[i])
		}
	}
	return out
}

// ZZ_C05_Positions: every truth-consuming position agrees with truth(v) for
// values of every type and provenance.
func ZZ_C05_Positions(sv *zzsv.T) {
	t := sv.Choice("type", nTypes)
	prov := sv.Choice("prov", 7)
	pos := sv.Choice("pos", len(zzTruthPositions))
	e := New("")
	obj, expr, val, ok := zzOrigin(sv, e, "v", t, prov, 2)
	sv.Assume(ok)
	want := zzTruth(val)
	sv.Note("types", zzTypeNames[t])
	if zzTruthPositions[pos] == "RUN" {
		e.Script = "return " + expr + ";"
		sv.Note("script", e.Script+" (verdict of Run)")
		sv.Assume(e.Prepare() == nil)
		got, err := e.Run(obj)
		sv.Observe("run", got, err != nil)
		sv.Assert("C05.run.noerror", err == nil)
		sv.Assert("C05.run.verdict", got == want)
		return
	}
	e.Script = zzSubst(zzTruthPositions[pos], expr)
	sv.Note("script", e.Script)
	sv.Assume(e.Prepare() == nil)
	out, err := e.Execute(obj)
	zzDescribe(sv, "result", out, err)
	sv.Assert("C05.position.noerror", err == nil)
	if err != nil {
		return
	}
	if pos > 7 && pos < 12 {
		// positions that consume !v: true for false and null only
		want = val.t == tNull || (val.t == tBool && !val.b)
	}
	if pos >= 16 {
		// positions that consume !!v (or return 1 unless !!!v)
		want = !(val.t == tNull || (val.t == tBool && !val.b))
	}
	w := int64(0)
	if want {
		w = 1
	}
	sv.Assert("C05.position.truth", zzSame(sv, out, zInt(w)))
}

// ZZ_C05_AndOr: && and || accept operands of any types: all 64 ordered
// pairs, result is the Boolean of truth(a) op truth(b).
func ZZ_C05_AndOr(sv *zzsv.T) {
	ops := []string{"&&", "||"}
	op := ops[sv.Choice("op", 2)]
	lt := sv.Choice("ltype", nTypes)
	rt := sv.Choice("rtype", nTypes)
	// operands: two variables, or a literal on either side (a constant
	// operand is what compile-time rewriting sees)
	e := New("")
	lits := sv.Choice("literals", 4)
	lprov, rprov := 0, 0
	if lits&1 != 0 {
		lprov = 5
	}
	if lits&2 != 0 {
		rprov = 5
	}
	_, ls, l, ok1 := zzOrigin(sv, e, "a", lt, lprov, 1)
	_, rs, r, ok2 := zzOrigin(sv, e, "b", rt, rprov, 1)
	sv.Assume(ok1 && ok2)
	src := "return " + ls + " " + op + " " + rs + ";"
	e.Script = src
	sv.Note("script", src)
	sv.Note("types", zzTypeNames[lt]+" "+op+" "+zzTypeNames[rt])
	sv.Region("same_kind_number_or_string", (lt == tInt || lt == tFloat) && (rt == tInt || rt == tFloat) || lt == tString && (rt == tString || rt == tRegexp))
	sv.Assume(e.Prepare() == nil)
	out, err := e.Execute(nil)
	zzDescribe(sv, "result", out, err)
	var want bool
	if op == "&&" {
		want = sv.All(zzTruth(l), zzTruth(r))
	} else {
		want = sv.Any(zzTruth(l), zzTruth(r))
	}
	sv.Assert("C05.andor.noerror", err == nil)
	if err == nil {
		sv.Assert("C05.andor.value", zzSame(sv, out, zBool(want)))
	}
}

// ZZ_C05_Bang: `!` negates a boolean however it was produced, gives true
// for null and false for anything else.
func ZZ_C05_Bang(sv *zzsv.T) {
	t := sv.Choice("type", nTypes)
	prov := sv.Choice("prov", 7)
	e := New("")
	obj, expr, val, ok := zzOrigin(sv, e, "v", t, prov, 2)
	sv.Assume(ok)
	e.Script = "return !" + expr + ";"
	sv.Note("script", e.Script)
	sv.Note("types", zzTypeNames[t])
	sv.Assume(e.Prepare() == nil)
	out, err := e.Execute(obj)
	zzDescribe(sv, "result", out, err)
	want := false
	switch t {
	case tBool:
		want = !val.b
	case tNull:
		want = true
	}
	sv.Assert("C05.bang.noerror", err == nil)
	if err == nil {
		sv.Assert("C05.bang.value", zzSame(sv, out, zBool(want)))
	}
}
