//go:build verif

package evalfilter

// C08 - bad scripts and odd objects produce errors, never a crash of the
// host.

import (
	"github.com/skx/evalfilter/v2/object"
	"github.com/skx/evalfilter/v2/zzsv"
)

func init() {
	zzsv.Register("ZZ_C08_Text", ZZ_C08_Text)
	zzsv.Register("ZZ_C08_Tokens", ZZ_C08_Tokens)
	zzsv.Register("ZZ_C08_Holes", ZZ_C08_Holes)
	zzsv.Register("ZZ_C08_RegexpBodies", ZZ_C08_RegexpBodies)
	zzsv.Register("ZZ_C08_RuntimeFaults", ZZ_C08_RuntimeFaults)
	zzsv.Register("ZZ_C08_ConstantFaults", ZZ_C08_ConstantFaults)
	zzsv.Register("ZZ_C08_ApiSequences", ZZ_C08_ApiSequences)
	zzsv.Register("ZZ_C08_Tails", ZZ_C08_Tails)
	zzsv.Register("ZZ_C08_CyclicObjects", ZZ_C08_CyclicObjects)
	zzsv.Register("ZZ_C08_OddObjects", ZZ_C08_OddObjects)
}

// the alphabet has a representative of every lexer class
var zzAlphabet = "a1\"'/\\\n ;(){}[],.+-*=!<>&|~?:%$\x00#"

// zzDrive runs the whole public surface on a script and reports whether any
// Go panic escaped.
func zzDrive(sv *zzsv.T, src string, obj interface{}) bool {
	return zzNoPanic(func() {
		e := New(src)
		if e.Prepare() != nil {
			return
		}
		sv.StdoutStart()
		_ = e.Dump()
		_, _ = e.Execute(obj)
		_, _ = e.Run(obj)
		// the evaluator remains usable afterwards
		_, _ = e.Run(obj)
		sv.StdoutEnd()
	})
}

// ZZ_C08_Text: every script text of up to N bytes over an alphabet that
// covers all lexer classes: Prepare, Dump, Execute and Run never panic.
func ZZ_C08_Text(sv *zzsv.T) {
	n := 1 + sv.Choice("len", sv.Param("text.maxlen", 2, 3))
	src := sv.String("b", n)
	for i := 0; i < n; i++ {
		var in []bool
		for j := 0; j < len(zzAlphabet); j++ {
			in = append(in, src[i] == zzAlphabet[j])
		}
		// the two bytes of a multi-byte character
		in = append(in, src[i] == 0xC3, src[i] == 0xA9)
		sv.Assume(sv.Any(in...))
	}
	sv.Note("script", src)
	ok := zzDrive(sv, src, nil)
	sv.Observe("ok", ok)
	sv.Assert("C08.text.nopanic", ok)
}

var zzTokens = []string{"a", "1", "1.5", "\"s\"", "/r/", "(", ")", "{", "}", "[", "]", ",", ";", ":", "?", "=", "==", "+", "-", "!", "++",
	"if", "else", "while", "foreach", "in", "function", "return", "switch", "case", "default", "local", "true", "..", ".", "+=", "&&", "√", "f("}

// ZZ_C08_Tokens: short token sequences reach every parselet's error paths.
func ZZ_C08_Tokens(sv *zzsv.T) {
	n := 1 + sv.Choice("ntokens", sv.Param("tokens.max", 3, 4))
	nt := sv.Param("tokens.alphabet", 26, len(zzTokens))
	src := ""
	for i := 0; i < n; i++ {
		if i > 0 {
			src += " "
		}
		src += zzTokens[sv.Choice("tok", nt)]
	}
	sv.Note("script", src)
	ok := zzDrive(sv, src, nil)
	sv.Observe("ok", ok)
	sv.Assert("C08.tokens.nopanic", ok)
}

// longer texts than the token sequences reach: a program skeleton around
// every construct, with holes (@) that take any token
var zzSkeletons = []string{
	"if ( @ ) { return @ ; }",
	"x . @ ( 1 ) { return @ ; }",
	"foreach k , v in @ { @ ; }",
	"function f ( a , @ ) { local @ ; } f( 1 , 2 ) ;",
	"switch ( x ) { case @ { } default { @ } }",
	"x = { \"k\" : @ , @ : 1 } ;",
	"x = [ 1 , @ ] [ @ ] ;",
	"return a ? @ : @ ;",
	"while ( a @ b ) { a @ ; }",
	"f( @ , @ ) ;",
	"a . b . @ = @ ;",
	"@ x @ 1 ;",
	"x = a @ @ b ;",
	"if ( a ) { } else @ { @ }",
	"function @ ( ) { return @ }",
	"foreach @ in [ 1 ] { } return @ ;",
}

// ZZ_C08_Holes: every pair of tokens in the holes of every skeleton:
// Prepare, Dump, Execute and Run never panic.
func ZZ_C08_Holes(sv *zzsv.T) {
	sk := zzSkeletons[sv.Choice("skeleton", len(zzSkeletons))]
	src := ""
	for i := 0; i < len(sk); i++ {
		if sk[i] == '@' {
			src += zzTokens[sv.Choice("hole", len(zzTokens))]
		} else {
			src += string(sk[i])
		}
	}
	sv.Note("script", src)
	ok := zzDrive(sv, src, nil)
	sv.Observe("ok", ok)
	sv.Assert("C08.holes.nopanic", ok)
}

// ZZ_C08_RegexpBodies: regexp literals whose body is any 1..3 characters
// over the regexp meta-characters (valid and invalid patterns alike), with
// every flag spelling, in the three places a regexp literal can stand:
// Prepare, Dump, Execute and Run never panic.
func ZZ_C08_RegexpBodies(sv *zzsv.T) {
	meta := "()?i[]\\*+.a|{^$:P<"
	n := 1 + sv.Choice("len", sv.Param("rebody.maxlen", 2, 3))
	body := sv.String("re", n)
	for i := 0; i < n; i++ {
		var in []bool
		for j := 0; j < len(meta); j++ {
			in = append(in, body[i] == meta[j])
		}
		sv.Assume(sv.Any(in...))
	}
	flags := []string{"", "i", "m", "im"}[sv.Choice("flags", sv.Param("rebody.flags", 2, 4))]
	lit := "/" + body + "/" + flags
	src := []string{
		"return Name ~= " + lit + ";",
		"switch (Name) { case " + lit + " { return 1; } } return 2;",
		"x = " + lit + "; return match(Name, x);",
	}[sv.Choice("place", 3)]
	sv.Note("script", src)
	ok := zzDrive(sv, src, map[string]interface{}{"Name": "a(i"})
	sv.Observe("ok", ok)
	sv.Assert("C08.rebody.nopanic", ok)
}

var zzFaultScripts = []string{
	"return a[i];",
	"return \"héllo\"[i];",
	"return [1, 2, 3][i];",
	"return {\"k\": 1}[i];",
	"return i / j;",
	"return i % j;",
	"return 1.5 % j;",
	"x = print(i); return x;",
	"if (print(i)) { return 1; } return 2;",
	"panic(i);",
	"panic();",
	"return i..j;",
	"foreach v in i..j { t = t + v; } return t;",
	"return nosuch(i);",
	"function f(p) { return f2(p); } return f(i);",
	"return -a;",
	"return √a;",
	"return a ~= /(/;",
	"return match(a, \"(\");",
	"return sprintf(a, i, j);",
	"return len(i, j);",
	"return i[0][1];",
	"return Missing.field.deeper;",
	"a++; return a;",
	"foreach v in i { return v; }",
	"return keys(i);",
	"return i ** j;",
	"function f(p) { panic(p); } return f(i);",
	"function f(p) { return p % j; } function g(p) { return f(p) + 1; } return g(i);",
	"function f(p) { foreach v in [1, 2] { if (p > 5) { panic(\"big\"); } } return p; } return f(i);",
	"function f(p) { return nosuch(p); } foreach v in [1, 2] { f(v + i); } return 3;",
}

// ZZ_C08_RuntimeFaults: run-time faults inside the script (bad indexes,
// wrong types, division by zero, value-less calls used as values, panic())
// come back as an error or an ordinary result.
func ZZ_C08_RuntimeFaults(sv *zzsv.T) {
	src := zzFaultScripts[sv.Choice("script", len(zzFaultScripts))]
	sv.Note("script", src)
	i := sv.Int64("i")
	j := sv.Int64("j")
	if src == "return i..j;" || src == "foreach v in i..j { t = t + v; } return t;" {
		// ranges longer than the bound need memory proportional to their
		// length (excluded by the statement)
		sv.Assume(i > -1000)
		sv.Assume(i < 1000)
		sv.Assume(j < 1000)
		sv.Assume(j-i < 6 || j < i)
	}
	if src == "return sprintf(a, i, j);" || src == "x = print(i); return x;" || src == "if (print(i)) { return 1; } return 2;" || src == "return len(i, j);" {
		// these print their arguments: keep the decimal model small
		sv.Assume(i >= -999)
		sv.Assume(i <= 9999)
		sv.Assume(j >= -999)
		sv.Assume(j <= 9999)
	}
	at := sv.Choice("a.type", nTypes)
	var a zv
	if src == "return sprintf(a, i, j);" && at == tString {
		// format strings: hostile but concrete (a symbolic format would be
		// enumerated byte by byte)
		fm := []string{"%d %d", "%", "%d", "%v|%v|%v", "no verbs"}
		a = zStr(fm[sv.Choice("format", len(fm))])
	} else if at == tFloat {
		// crashes, not arithmetic, are the subject: representative floats
		a = zFloat([]float64{0, -0.5, 2.5, 1e300}[sv.Choice("a.f", 4)])
	} else {
		a = zzValue(sv, "a", at, 2)
		// built-ins print their arguments: keep the decimal model of the
		// integers inside `a` small (i and j stay unbounded)
		small := func(x int64) {
			sv.Assume(x >= -999)
			sv.Assume(x <= 9999)
		}
		if at == tInt {
			small(a.i)
		}
		for _, el := range a.arr {
			small(el.i)
		}
		for _, el := range a.hv {
			small(el.i)
		}
	}
	usable := true
	// the host may have given the evaluator a context (one that never becomes
	// done within the run): faults come back the same way
	withCtx := sv.Choice("with_context", 2) == 1
	ok := zzNoPanic(func() {
		e := New(src)
		if withCtx {
			c := sv.Ctx("ctx.never", 1000000)
			sv.Assume(c.K == 1000000)
			e.SetContext(c)
		}
		e.SetVariable("i", &object.Integer{Value: i})
		e.SetVariable("j", &object.Integer{Value: j})
		e.SetVariable("a", a.obj())
		e.SetVariable("t", &object.Integer{Value: 0})
		if e.Prepare() != nil {
			return
		}
		out, err := e.Execute(nil)
		sv.Observe("execute", err != nil)
		if err == nil {
			sv.Assert("C08.fault.result_not_nil", out != nil)
		}
		_, rerr := e.Run(nil)
		sv.Observe("run", rerr != nil)
		// usable afterwards: with benign operands the used evaluator behaves
		// like a freshly prepared one
		e.SetVariable("i", &object.Integer{Value: 1})
		e.SetVariable("j", &object.Integer{Value: 2})
		e.SetVariable("t", &object.Integer{Value: 0})
		e.SetVariable("x", &object.Null{})
		o1, err1 := e.Execute(nil)
		f := New(src)
		f.SetVariable("i", &object.Integer{Value: 1})
		f.SetVariable("j", &object.Integer{Value: 2})
		f.SetVariable("a", a.obj())
		f.SetVariable("t", &object.Integer{Value: 0})
		if f.Prepare() != nil {
			return
		}
		o2, err2 := f.Execute(nil)
		sv.Observe("after", err1 != nil, err2 != nil)
		usable = (err1 != nil) == (err2 != nil) && (err1 != nil || zzSameObj(sv, o1, o2))
	})
	sv.Assert("C08.fault.nopanic", ok)
	if src != "a++; return a;" {
		sv.Assert("C08.fault.usable_afterwards", usable)
	}
}

type zzC08Inner struct{ X int }

type zzC08Odd struct {
	Name string
	U    uint
	P    *int
	N    zzC08Inner
	C    chan int
	Fn   func()
	A    [2]int
	Cx   complex64
	If   interface{}
	MI   map[int]string
	Tags []interface{}
	SU   []uint
}

// ZZ_C08_OddObjects: nil, non-struct values, nil pointers, maps with
// unexpected key/value kinds and structs with unconvertible fields.
func ZZ_C08_OddObjects(sv *zzsv.T) {
	var nilStruct *zzC08Odd
	x := 3
	objs := []interface{}{
		nil, 42, "text", []int{1, 2}, nilStruct, &x,
		map[int]string{1: "a"}, map[string]int{"Name": 1}, map[string]interface{}{"Name": nil, "U": uint(3), "P": &x, "C": make(chan int)},
		zzC08Odd{Name: "n", P: &x, If: 5}, &zzC08Odd{Name: "n"}, struct{}{}, 3.5, true, func() {},
		// slices with members the engine cannot convert
		map[string]interface{}{"Name": "n", "Tags": []interface{}{"a", nil, "b"}, "SU": []interface{}{[]interface{}{"x"}, uint(1)}},
		zzC08Odd{Name: "n", Tags: []interface{}{nil, &x, 1}, SU: []uint{1, 2}},
	}
	obj := objs[sv.Choice("object", len(objs))]
	scripts := []string{"return Name;", "return U;", "return P;", "return N;", "return MI;", "return If;", "return Name == \"n\";", "return 1;", "return len(Name) + U;",
		"return Tags[1];", "return Tags[0];", "return SU[0];", "foreach t in Tags { return t; } return 2;", "return len(Tags) + len(SU);", "return Tags;"}
	src := scripts[sv.Choice("script", len(scripts))]
	sv.Note("script", src)
	ok := zzNoPanic(func() {
		e := New(src)
		if e.Prepare() != nil {
			return
		}
		out, err := e.Execute(obj)
		sv.Observe("execute", err != nil)
		if err == nil {
			sv.Assert("C08.object.result_not_nil", out != nil)
		}
		_, rerr := e.Run(obj)
		sv.Observe("run", rerr != nil)
		// usable afterwards on a benign object
		v, berr := e.Run(zzC08Odd{Name: "n"})
		sv.Observe("after", v, berr != nil)
	})
	sv.Assert("C08.object.nopanic", ok)
}

var zzConstFaults = []string{
	"return 7001 / 7002;",
	"return 7001 % 7002;",
	"return 7 % (7001 - 7002);",
	"return 7 / (7001 - 7002);",
	"function f() { return 7001 % 7002; } return 1;",
	"function f() { return 7001 / (7002 - 7001); } return f();",
	"if (7001 % 7002 == 0) { return 1; } return 2;",
	"return [1, 2, 3][7001 - 7002];",
	"return \"héllo\"[7001 - 7002];",
	"return (7001 - 7002)..7001;",
	"return √(7001 - 7002);",
	"return -(7001 % 7002);",
	"x = 7001; x /= 7002; return x;",
	"return 7001 % 7002 % 7001;",
	"return (7001 == 7002) % (7002 == 7001);",
	"return 1.5 % (7001 - 7002);",
	"return 7001 ** (7002 - 7001);",
}

// ZZ_C08_ConstantFaults: the same run-time faults spelled with literals, so
// that whatever is computed from constants while the script is being
// prepared (folding by the optimizer, pooling) meets the faulting operands
// there: Prepare, Execute and Run return - with an error or a value - for
// every value of the literals (symbolic in [0, 70000] at AST level).
func ZZ_C08_ConstantFaults(sv *zzsv.T) {
	src := zzConstFaults[sv.Choice("script", len(zzConstFaults))]
	sv.Note("script", src+"   (7001, 7002 are symbolic literals)")
	a := sv.Int64("L1")
	b := sv.Int64("L2")
	sv.Assume(a >= 0 && a <= 70000 && b >= 0 && b <= 70000)
	if src == "return (7001 - 7002)..7001;" {
		sv.Assume(b < 4) // the range has b+1 elements
	}
	if src == "return 7001 ** (7002 - 7001);" {
		sv.Assume(a <= 3 && b <= 6)
	}
	opt := sv.Choice("noopt", 2) == 0
	ok := zzNoPanic(func() {
		prog, pok := zzParseWithLits(sv, src, []int64{a, b})
		if !pok {
			return
		}
		e := New(src)
		if zzPrepareAST(e, prog, opt) != nil {
			sv.Observe("prepare", "error")
			return
		}
		out, err := e.Execute(nil)
		sv.Observe("execute", err != nil)
		if err == nil {
			sv.Assert("C08.constfault.result_not_nil", out != nil)
		}
		_, rerr := e.Run(nil)
		sv.Observe("run", rerr != nil)
	})
	sv.Assert("C08.constfault.nopanic", ok)
}

// ZZ_C08_ApiSequences: the entry points in the orders a host may call them:
// Prepare twice, Dump / Execute / Run before Prepare or after a Prepare that
// rejected the script, Execute and Dump again afterwards - for valid,
// invalid and faulting scripts: nothing panics into the caller, a script
// prepared twice behaves like one prepared once, and the evaluator of a
// rejected script keeps answering with errors.
func ZZ_C08_ApiSequences(sv *zzsv.T) {
	scripts := []string{
		"return A + 1;",
		"function f(p) { return p * 2; } return f(A);",
		"function f(p) { local q; q = p; foreach v in [1, 2] { q = q + v; } return q; } function g() { return f(A); } x = g(); return x;",
		"switch (A) { case 1 { return \"one\"; } default { return [A, 2.5, /re/]; } }",
		"return (;",
		"function f( { return 1; }",
		"return A / 0;",
		"x = \"unterminated",
		"",
	}
	k := sv.Choice("script", len(scripts))
	src := scripts[k]
	sv.Note("script", src)
	a := sv.Int64("A")
	seqs := []string{"PE", "PPE", "PEPE", "E", "D", "R", "PD", "PDE", "PPDE", "EPE", "DPD", "PEDE"}
	seq := seqs[sv.Choice("sequence", len(seqs))]
	sv.Note("sequence", seq+" (P Prepare, E Execute, R Run, D Dump)")
	var outs []object.Object
	var errs []bool
	ok := zzNoPanic(func() {
		e := New(src)
		e.SetVariable("A", &object.Integer{Value: a})
		sv.StdoutStart()
		for _, step := range seq {
			switch step {
			case 'P':
				if sv.Choice("noopt", 2) == 1 {
					_ = e.Prepare([]byte{NoOptimize})
				} else {
					_ = e.Prepare()
				}
			case 'E':
				o, err := e.Execute(nil)
				outs = append(outs, o)
				errs = append(errs, err != nil)
				if err == nil {
					sv.Assert("C08.api.result_not_nil", o != nil)
				}
			case 'R':
				_, err := e.Run(nil)
				errs = append(errs, err != nil)
			case 'D':
				_ = e.Dump()
			}
		}
		sv.StdoutEnd()
	})
	sv.Assert("C08.api.nopanic", ok)
	if !ok {
		return
	}
	// what a single Prepare + Execute gives
	ref := New(src)
	ref.SetVariable("A", &object.Integer{Value: a})
	perr := ref.Prepare()
	var ro object.Object
	var rerr error
	if perr == nil {
		ro, rerr = ref.Execute(nil)
	}
	prepared := false
	n := 0
	for _, step := range seq {
		switch step {
		case 'P':
			prepared = true
		case 'E':
			if prepared && perr == nil {
				sv.Assert("C08.api.same_as_prepared_once", errs[n] == (rerr != nil) && (rerr != nil || zzSameObj(sv, outs[n], ro)))
			} else if prepared {
				// a script that Prepare rejected has no program to run
				sv.Assert("C08.api.rejected_script_does_not_run", errs[n])
			}
			// (Execute without any Prepare: only "no panic" is demanded -
			// preparing on first use would be a legitimate design)
			n++
		case 'R':
			if prepared && perr != nil {
				sv.Assert("C08.api.rejected_script_does_not_run", errs[n])
			}
			n++
		}
	}
}

// ZZ_C08_Tails: how a script ends: a valid beginning followed by three
// symbolic bytes from the characters the lexer treats specially while it is
// inside a literal or a comment (quotes, backslash, CR, LF, slash, NUL, a
// high byte, a digit, a dot): look-ahead at the very end of the input,
// escapes and continuations cut short, literals and comments left open.
func ZZ_C08_Tails(sv *zzsv.T) {
	heads := []string{"", "return ", "x = \"ab", "x = 'ab", "x = a ~= /ab", "x = 1", "x = 1.", "// c", "x = a /", "foreach v in 1..", "return \"s\" + \""}
	head := heads[sv.Choice("head", len(heads))]
	tailChars := "\"'\\\r\n/\x00\xc3 1.a"
	n := 1 + sv.Choice("tail.len", sv.Param("tail.maxlen", 3, 4))
	tail := sv.String("tail", n)
	for i := 0; i < n; i++ {
		var in []bool
		for j := 0; j < len(tailChars); j++ {
			in = append(in, tail[i] == tailChars[j])
		}
		sv.Assume(sv.Any(in...))
	}
	src := head + tail
	sv.Note("script", "<"+head+"> + symbolic tail")
	ok := zzDrive(sv, src, nil)
	sv.Observe("ok", ok)
	sv.Assert("C08.tails.nopanic", ok)
}

type zzC08Node struct {
	Name string
	Next *zzC08Node
	Kids []*zzC08Node
	M    map[string]interface{}
	L    []interface{}
	Any  interface{}
}

// ZZ_C08_CyclicObjects: host objects that contain themselves - a struct
// reachable from its own pointer fields, a map stored under one of its own
// keys (as the object, in a field, inside a slice), a slice that is its own
// member: every run returns (a value or an error; the process is still
// there), and the plain fields next to the cycle still read correctly.
func ZZ_C08_CyclicObjects(sv *zzsv.T) {
	sv.MustTerminate("C08.cyclic.returns", 20)
	name := zzASCII(sv, "name", 1)
	n := &zzC08Node{Name: name}
	m := map[string]interface{}{"Name": name}
	var obj interface{}
	switch sv.Choice("shape", 7) {
	case 0: // a struct that points to itself
		n.Next = n
		n.Kids = []*zzC08Node{n, n}
		n.Any = n
		obj = n
	case 1: // a map stored under its own key, as the object
		m["self"] = m
		obj = m
	case 2: // ... in a field of the object
		m["self"] = m
		n.M = m
		obj = n
	case 3: // ... two maps holding each other
		m2 := map[string]interface{}{"back": m}
		m["fwd"] = m2
		obj = m
	case 4: // ... through a slice
		m["list"] = []interface{}{1, m}
		obj = m
	case 5: // a slice that is its own member
		l := []interface{}{"x", nil}
		l[1] = l
		n.L = l
		obj = n
	default: // a map inside an interface field inside a slice of the map
		m["any"] = []interface{}{map[string]interface{}{"up": m}}
		n.Any = m
		n.M = m
		obj = n
	}
	scripts := []string{"return Name;", "return len(Name) + 1;", "x = self; y = M; return Name;", "foreach k, v in M { t = k; } return Name;", "return string(self) + string(L) + Name;"}
	e := New(scripts[sv.Choice("script", len(scripts))])
	sv.Note("script", e.Script)
	sv.Assume(e.Prepare() == nil)
	var out object.Object
	var err error
	ok := zzNoPanic(func() {
		sv.StdoutStart()
		out, err = e.Execute(obj)
		_, _ = e.Run(obj)
		sv.StdoutEnd()
	})
	sv.Assert("C08.cyclic.nopanic", ok)
	if !ok || err != nil {
		return
	}
	zzDescribe(sv, "result", out, err)
	switch e.Script {
	case scripts[0], scripts[2], scripts[3]:
		sv.Assert("C08.cyclic.plain_field", zzSame(sv, out, zStr(name)))
	case scripts[1]:
		sv.Assert("C08.cyclic.plain_field", zzSame(sv, out, zInt(2)))
	}
}
