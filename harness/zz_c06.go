//go:build verif

package evalfilter

// C06 - functions and scopes: locals stay local, everything else is global.

import (
	"github.com/skx/evalfilter/v2/object"
	"github.com/skx/evalfilter/v2/zzsv"
)

func init() {
	zzsv.Register("ZZ_C06_Scopes", ZZ_C06_Scopes)
	zzsv.Register("ZZ_C06_Errors", ZZ_C06_Errors)
	zzsv.Register("ZZ_C06_AfterFailedCalls", ZZ_C06_AfterFailedCalls)
}

func stT(e *zzExpr) *zzStmt                 { return &zzStmt{kind: sTrace, e: e} }
func stRet(e *zzExpr) *zzStmt               { return &zzStmt{kind: sReturn, e: e} }
func stSet(n string, e *zzExpr) *zzStmt     { return &zzStmt{kind: sAssign, name: n, e: e} }
func stCall(f string, a ...*zzExpr) *zzStmt { return &zzStmt{kind: sExpr, e: xCall(f, a...)} }
func stLocal(n string) *zzStmt              { return &zzStmt{kind: sLocal, name: n} }
func stIf(c *zzExpr, b ...*zzStmt) *zzStmt  { return &zzStmt{kind: sIf, e: c, body: b} }
func stEach(idx, v string, it *zzExpr, b ...*zzStmt) *zzStmt {
	return &zzStmt{kind: sForeach, idx: idx, name: v, e: it, body: b}
}
func stWhile(c *zzExpr, b ...*zzStmt) *zzStmt { return &zzStmt{kind: sWhile, e: c, body: b} }

// zzScopePrograms builds the scope scenarios. Names a and b are globals
// (symbolic); role names are chosen so that parameters, locals and loop
// variables clash with them on purpose.
func zzScopeProgram(sv *zzsv.T, k int, clash string, arr *zzExpr) *zzProg {
	N := xVar("n")
	other := "b"
	if clash == "b" {
		other = "a"
	}
	switch k {
	case 0: // parameter shadows a global; assignment to it stays local
		return &zzProg{funcs: []*zzFunc{{name: "f", params: []string{clash}, body: []*zzStmt{
			stSet(clash, xBin("+", xVar(clash), xLit(1))), stRet(xVar(clash))}}},
			main: []*zzStmt{stSet("r", xCall("f", N)), stT(xVar("a")), stT(xVar("b")), stRet(xVar("r"))}}
	case 1: // local declaration shadows a global
		return &zzProg{funcs: []*zzFunc{{name: "f", params: []string{"p"}, body: []*zzStmt{
			stLocal(clash), stSet(clash, xBin("+", xVar("p"), xVar("p"))), stRet(xVar(clash))}}},
			main: []*zzStmt{stSet("r", xCall("f", N)), stT(xVar("a")), stT(xVar("b")), stRet(xVar("r"))}}
	case 2: // assignment to a non-local name inside a function is global
		return &zzProg{funcs: []*zzFunc{{name: "f", params: []string{"p"}, body: []*zzStmt{
			stSet(clash, xBin("+", xVar("p"), xLit(1))), stSet("g", xVar("p"))}}},
			main: []*zzStmt{stCall("f", N), stT(xVar("g")), stT(xVar(other)), stRet(xVar(clash))}}
	case 3: // foreach variable inside a function clashes with a global
		return &zzProg{funcs: []*zzFunc{{name: "f", params: []string{"p"}, body: []*zzStmt{
			stEach("", clash, arr, stSet("p", xBin("+", xVar("p"), xVar(clash)))), stRet(xVar("p"))}}},
			main: []*zzStmt{stSet("r", xCall("f", N)), stT(xVar("a")), stT(xVar("b")), stRet(xVar("r"))}}
	case 4: // early return from inside a foreach inside a function
		return &zzProg{funcs: []*zzFunc{{name: "f", params: []string{clash}, body: []*zzStmt{
			stEach("", "x", arr, stRet(xBin("+", xVar("x"), xVar(clash)))), stRet(xLit(0))}}},
			main: []*zzStmt{stSet("r", xCall("f", N)), stT(xVar("a")), stT(xVar("b")), stT(xVar("x")), stRet(xVar("r"))}}
	case 5: // early return from a while inside a function
		return &zzProg{funcs: []*zzFunc{{name: "f", params: []string{clash}, body: []*zzStmt{
			stWhile(xBin("<", xVar(clash), xLit(3)), stIf(xBin("<", xLit(0), xVar(clash)), stRet(xVar(clash))), stSet(clash, xBin("+", xVar(clash), xLit(1)))),
			stRet(xLit(77))}}},
			main: []*zzStmt{stSet("r", xCall("f", N)), stT(xVar("a")), stT(xVar("b")), stRet(xVar("r"))}}
	case 6: // early return from a switch arm inside a loop inside a function
		sw := &zzStmt{kind: sSwitch, e: xVar("x"), cases: []zzCase{{exprs: []*zzExpr{xVar(clash)}, body: []*zzStmt{stRet(xLit(5))}}, {dflt: true, body: []*zzStmt{stT(xVar("x"))}}}}
		return &zzProg{funcs: []*zzFunc{{name: "f", params: []string{clash}, body: []*zzStmt{stEach("", "x", arr, sw), stRet(xLit(6))}}},
			main: []*zzStmt{stSet("r", xCall("f", N)), stT(xVar("a")), stT(xVar("b")), stT(xVar("x")), stRet(xVar("r"))}}
	case 7: // return from two nested loops
		inner := stEach("", "y", arr, stIf(xBin("<", xVar("y"), xVar(clash)), stRet(xVar("y"))))
		return &zzProg{funcs: []*zzFunc{{name: "f", params: []string{clash}, body: []*zzStmt{stEach("i", "x", arr, inner), stRet(xLit(8))}}},
			main: []*zzStmt{stSet("r", xCall("f", N)), stT(xVar("a")), stT(xVar("b")), stT(xVar("x")), stT(xVar("y")), stT(xVar("i")), stRet(xVar("r"))}}
	case 8: // called before its definition
		return &zzProg{funcsLast: true, funcs: []*zzFunc{{name: "f", params: []string{clash}, body: []*zzStmt{stRet(xBin("+", xVar(clash), xLit(2)))}}},
			main: []*zzStmt{stSet("r", xCall("f", N)), stT(xVar("a")), stRet(xVar("r"))}}
	case 9: // recursion, depth driven by the argument
		return &zzProg{funcs: []*zzFunc{{name: "f", params: []string{clash}, body: []*zzStmt{
			stIf(xBin("<", xVar(clash), xLit(1)), stRet(xLit(0))),
			stRet(xBin("+", xVar(clash), xCall("f", xBin("-", xVar(clash), xLit(1)))))}}},
			main: []*zzStmt{stSet("r", xCall("f", N)), stT(xVar("a")), stT(xVar("b")), stRet(xVar("r"))}}
	case 10: // nested calls whose parameters share a name
		return &zzProg{funcs: []*zzFunc{
			{name: "f", params: []string{clash}, body: []*zzStmt{stSet("q", xCall("g", xBin("+", xVar(clash), xLit(1)))), stRet(xBin("+", xVar("q"), xVar(clash)))}},
			{name: "g", params: []string{clash}, body: []*zzStmt{stSet(clash, xBin("+", xVar(clash), xVar(clash))), stRet(xVar(clash))}}},
			main: []*zzStmt{stSet("r", xCall("f", N)), stT(xVar("a")), stT(xVar("b")), stRet(xVar("r"))}}
	case 11: // top-level foreach variable is bound for the loop only
		return &zzProg{main: []*zzStmt{stEach("", clash, arr, stT(xVar(clash))), stT(xVar("a")), stT(xVar("b")), stRet(xVar(clash))}}
	case 12: // the index variable of a foreach clashes with a parameter
		return &zzProg{funcs: []*zzFunc{{name: "f", params: []string{clash}, body: []*zzStmt{
			stEach(clash, "v", arr, stT(xVar("v"))), stRet(xVar(clash))}}},
			main: []*zzStmt{stSet("r", xCall("f", N)), stT(xVar("a")), stT(xVar("b")), stRet(xVar("r"))}}
	case 13: // a callee's loop variables clash with the caller's running loop
		return &zzProg{funcs: []*zzFunc{{name: "g", params: []string{"p"}, body: []*zzStmt{
			stEach("i", "v", arr, stSet("p", xBin("+", xVar("p"), xVar("i")))), stRet(xVar("p"))}}},
			main: []*zzStmt{stEach("i", "v", arr, stSet("r", xCall("g", xVar("v"))), stT(xVar("i")), stT(xVar("v")), stT(xVar("r"))), stT(xVar("a")), stRet(xVar(clash))}}
	case 14: // a local declared after the loop variable of the same name went out of scope
		return &zzProg{funcs: []*zzFunc{{name: "f", params: []string{"p"}, body: []*zzStmt{
			stLocal(clash), stSet(clash, xVar("p")), stEach(clash, "v", arr, stT(xVar(clash))), stRet(xVar(clash))}}},
			main: []*zzStmt{stSet("r", xCall("f", N)), stT(xVar("a")), stT(xVar("b")), stRet(xVar("r"))}}
	case 15: // a callee's local is gone when the next function, at the same depth, assigns the global of that name
		return &zzProg{funcs: []*zzFunc{
			{name: "first", params: []string{"p"}, body: []*zzStmt{stLocal(clash), stSet(clash, xBin("+", xVar("p"), xLit(5))), stRet(xVar(clash))}},
			{name: "second", params: []string{"p"}, body: []*zzStmt{stSet(clash, xBin("+", xVar("p"), xLit(7))), stRet(xLit(0))}}},
			main: []*zzStmt{stSet("r", xCall("first", N)), stSet("q", xCall("second", N)), stT(xVar("a")), stT(xVar("b")), stRet(xVar(clash))}}
	case 16: // ... or reads it
		return &zzProg{funcs: []*zzFunc{
			{name: "first", params: []string{clash}, body: []*zzStmt{stSet(clash, xBin("+", xVar(clash), xLit(5))), stRet(xVar(clash))}},
			{name: "reader", params: []string{"p"}, body: []*zzStmt{stRet(xBin("+", xVar(clash), xVar("p")))}}},
			main: []*zzStmt{stSet("r", xCall("first", N)), stSet("q", xCall("reader", xLit(1))), stT(xVar("q")), stT(xVar("a")), stRet(xVar("r"))}}
	case 17: // a finished loop's variable, then a function assigning the global of that name
		return &zzProg{funcs: []*zzFunc{
			{name: "set", params: []string{"p"}, body: []*zzStmt{stSet("x", xBin("+", xVar("p"), xLit(9))), stRet(xLit(0))}}},
			main: []*zzStmt{stEach("", "x", arr, stSet("r", xVar("x"))), stSet("q", xCall("set", N)), stT(xVar("a")), stRet(xVar("x"))}}
	case 18: // a callee reads the caller's local, then declares its own local of that name
		return &zzProg{funcs: []*zzFunc{
			{name: "inner", params: []string{"p"}, body: []*zzStmt{stSet("seen", xVar(clash)), stLocal(clash), stSet(clash, xBin("+", xVar("p"), xLit(9))), stRet(xVar(clash))}},
			{name: "outer", params: []string{"p"}, body: []*zzStmt{stLocal(clash), stSet(clash, xVar("p")), stSet("q", xCall("inner", xVar("p"))), stRet(xVar(clash))}}},
			main: []*zzStmt{stSet("r", xCall("outer", N)), stT(xVar("seen")), stT(xVar("q")), stT(xVar("a")), stT(xVar("b")), stRet(xVar("r"))}}
	case 19: // a loop body reads the function's local, then declares a local of that name for the loop
		return &zzProg{funcs: []*zzFunc{{name: "f", params: []string{"p"}, body: []*zzStmt{
			stLocal(clash), stSet(clash, xVar("p")),
			stEach("", "v", arr, stT(xVar(clash)), stLocal(clash), stSet(clash, xVar("v")), stT(xVar(clash))),
			stRet(xVar(clash))}}},
			main: []*zzStmt{stSet("r", xCall("f", N)), stT(xVar("a")), stT(xVar("b")), stRet(xVar("r"))}}
	case 20: // a parameter is read in a loop body before a local of that name is declared there
		return &zzProg{funcs: []*zzFunc{{name: "f", params: []string{clash}, body: []*zzStmt{
			stEach("", "v", arr, stSet("g", xVar(clash)), stLocal(clash), stSet(clash, xBin("+", xVar("v"), xLit(1))), stSet("g", xBin("+", xVar("g"), xVar(clash)))),
			stRet(xVar(clash))}}},
			main: []*zzStmt{stSet("r", xCall("f", N)), stT(xVar("g")), stT(xVar("a")), stT(xVar("b")), stRet(xVar("r"))}}
	case 21: // a callee reads the variable of the caller's running loop, then declares a local of that name
		return &zzProg{funcs: []*zzFunc{{name: "h", params: []string{"p"}, body: []*zzStmt{
			stSet("seen", xVar("x")), stLocal("x"), stSet("x", xBin("+", xVar("p"), xLit(5))), stRet(xVar("x"))}}},
			main: []*zzStmt{stEach("", "x", arr, stSet("r", xCall("h", N)), stT(xVar("x")), stT(xVar("seen"))), stT(xVar("a")), stRet(xVar("r"))}}
	case 22: // a function without parameters declares its local inside a nested block
		return &zzProg{funcs: []*zzFunc{{name: "f", body: []*zzStmt{
			stIf(xBin("<", xLit(0), N), stLocal(clash), stSet(clash, xBin("+", N, xLit(5))), stT(xVar(clash))), stRet(xLit(3))}}},
			main: []*zzStmt{stSet("r", xCall("f")), stT(xVar("a")), stT(xVar("b")), stRet(xVar(clash))}}
	case 23: // ... inside a loop, called from a function that has a local of that name
		return &zzProg{funcs: []*zzFunc{
			{name: "f", body: []*zzStmt{stWhile(xBin("<", xVar("g"), xLit(1)), stLocal(clash), stSet(clash, xLit(77)), stSet("g", xBin("+", xVar("g"), xLit(1)))), stRet(xLit(3))}},
			{name: "outer", params: []string{"p"}, body: []*zzStmt{stLocal(clash), stSet(clash, xVar("p")), stSet("q", xCall("f")), stRet(xVar(clash))}}},
			main: []*zzStmt{stSet("g", xLit(0)), stSet("r", xCall("outer", N)), stT(xVar("a")), stT(xVar("b")), stRet(xVar("r"))}}
	case 24: // ... inside a switch arm; the caller is a running loop whose variable has that name
		sw := &zzStmt{kind: sSwitch, e: N, cases: []zzCase{{exprs: []*zzExpr{N}, body: []*zzStmt{stLocal("x"), stSet("x", xLit(55))}}, {dflt: true, body: []*zzStmt{stT(xLit(1))}}}}
		return &zzProg{funcs: []*zzFunc{{name: "f", body: []*zzStmt{sw, stRet(xLit(3))}}},
			main: []*zzStmt{stEach("", "x", arr, stSet("r", xCall("f")), stT(xVar("x"))), stT(xVar("a")), stRet(xVar("x"))}}
	case 25: // a callee that leaves values behind (an ignored call result, a literal statement) while the caller has operands pending
		return &zzProg{funcs: []*zzFunc{
			{name: "id", params: []string{"p"}, body: []*zzStmt{stRet(xVar("p"))}},
			{name: "noisy", params: []string{"p"}, body: []*zzStmt{stCall("id", xVar("p")), {kind: sExpr, e: xLit(7)}, stRet(xBin("+", xVar("p"), xLit(1)))}},
			{name: "three", params: []string{"x", "y", "z"}, body: []*zzStmt{stCall("id", xVar("y")), stRet(xBin("-", xBin("-", xVar("x"), xVar("y")), xVar("z")))}}},
			main: []*zzStmt{stSet("r", xBin("+", N, xCall("noisy", xVar(clash)))), stSet("q", xCall("three", N, xCall("noisy", xVar("a")), xVar("b"))),
				stT(xVar("r")), stT(xVar("q")), stRet(xBin("-", xVar("r"), xCall("noisy", xVar("q"))))}}
	case 26: // ... recursion with a pending operand and a noisy statement in every frame
		return &zzProg{funcs: []*zzFunc{
			{name: "id", params: []string{"p"}, body: []*zzStmt{stRet(xVar("p"))}},
			{name: "f", params: []string{clash}, body: []*zzStmt{stCall("id", xVar(clash)),
				stIf(xBin("<", xVar(clash), xLit(1)), stRet(xLit(0))),
				stRet(xBin("+", xVar(clash), xCall("f", xBin("-", xVar(clash), xLit(1)))))}}},
			main: []*zzStmt{stSet("r", xBin("+", xLit(100), xCall("f", N))), stT(xVar("a")), stRet(xVar("r"))}}
	default: // a function without return used as a statement: nothing comes back
		return &zzProg{funcs: []*zzFunc{{name: "f", params: []string{"p"}, body: []*zzStmt{stSet("g", xVar("p"))}}},
			main: []*zzStmt{stCall("f", N), stCall("f", xBin("+", N, xLit(1))), stRet(xVar("g"))}}
	}
}

// ZZ_C06_Scopes: after a call returns - from anywhere - the caller's
// variables of the same names have their old values, the callee's are gone,
// other assignments are global.
func ZZ_C06_Scopes(sv *zzsv.T) {
	k := sv.Choice("scenario", 28)
	clash := []string{"a", "b"}[sv.Choice("clash", 2)]
	vars := map[string]zv{"a": zInt(sv.Int64("a")), "b": zInt(sv.Int64("b"))}
	order := []string{"a", "b"}
	n := sv.Int64("n")
	if k == 9 || k == 5 || k == 26 {
		// recursion depth / loop trips are driven by n: keep them bounded
		sv.Assume(n >= -1)
		sv.Assume(n <= 3)
	}
	vars["n"] = zInt(n)
	order = append(order, "n")
	alen := sv.Choice("arr.len", 3)
	av := zv{t: tArray}
	for i := 0; i < alen; i++ {
		av.arr = append(av.arr, zInt(sv.Int64("arr.el")))
	}
	vars["arr"] = av
	order = append(order, "arr")
	p := zzScopeProgram(sv, k, clash, xVar("arr"))
	src := p.text()
	sv.Note("script", src)
	var trace []object.Object
	e, err := zzPrepare(sv, src, vars, order, sv.Choice("noopt", 2) == 1, &trace)
	sv.Assert("C06.prepare", err == nil)
	if err != nil {
		return
	}
	out, rerr := e.Execute(nil)
	ref, want := zzRunRef(sv, p, vars, nil)
	zzDescribe(sv, "result", out, rerr)
	zzCompareRun(sv, "C06", e, out, rerr, trace, ref, want, []string{"a", "b", "g", "r", "x", "y", "i", "p", "q", "seen"})
}

// ZZ_C06_Errors: wrong argument count and unknown functions are run-time
// errors; a built-in wins over a user-defined function of the same name.
func ZZ_C06_Errors(sv *zzsv.T) {
	scripts := []string{
		"function f(p, q) { return 1; } return f(1);",
		"function f(p) { return 1; } return f(1, 2);",
		"function f() { return 1; } return f(A);",
		"return nosuch(A);",
		"function f(p) { return g(p); } return f(A);",
		"function len(x) { return 99; } return len(\"ab\");",
		"function f(p) { return p; } return f(A);",
	}
	k := sv.Choice("script", len(scripts))
	a := sv.Int64("A")
	e := New(scripts[k])
	sv.Note("script", e.Script)
	e.SetVariable("A", &object.Integer{Value: a})
	sv.Assume(e.Prepare() == nil)
	out, err := e.Execute(nil)
	zzDescribe(sv, "result", out, err)
	switch k {
	case 5:
		sv.Assert("C06.builtin_wins", err == nil && zzSame(sv, out, zInt(2)))
	case 6:
		sv.Assert("C06.call", err == nil && zzSame(sv, out, zInt(a)))
	default:
		sv.Assert("C06.call_error", err != nil)
	}
}

// ZZ_C06_AfterFailedCalls: a wrong argument count, an unknown function, a
// type error or a panic() is a run-time error of that call and that run
// only: after many runs that failed at the bottom of a deep recursion (100
// runs x 120 frames quick, 400 x 120 thorough - whatever each abandons must
// not add up), functions still run and return the value of their `return`:
// a correct call, a recursive one, one made before the definition.
func ZZ_C06_AfterFailedCalls(sv *zzsv.T) {
	sv.Param("engine.msteps", 1500, 6000)
	bottoms := []string{"return helper(k, 1);", "return nosuch(k);", "return k + \"s\";", "panic(\"bottom\");"}
	bottom := bottoms[sv.Choice("bottom", len(bottoms))]
	src := "r = big(3) + down(N); function helper(p) { return p; } function down(k) { if (k <= 0) { if (Z == 0) { " + bottom + " } return B; } return down(k - 1) + 1; } function big(p) { return p * 2; } return r;"
	sv.Note("script", src)
	runs := sv.Param("failed.runs", 100, 400)
	depth := int64(sv.Param("failed.depth", 120, 120))
	b := sv.Int64("B")
	e := New(src)
	e.SetVariable("B", &object.Integer{Value: b})
	e.SetVariable("Z", &object.Integer{Value: 0})
	e.SetVariable("N", &object.Integer{Value: depth})
	sv.Assume(e.Prepare() == nil)
	for i := 0; i < runs; i++ {
		_, err := e.Execute(nil)
		if i == 0 {
			sv.Assert("C06.afterfailed.history_fails", err != nil)
		}
	}
	e.SetVariable("Z", &object.Integer{Value: 1})
	e.SetVariable("N", &object.Integer{Value: 4})
	out, err := e.Execute(nil)
	zzDescribe(sv, "result", out, err)
	sv.Assert("C06.afterfailed.calls_work", err == nil && zzSame(sv, out, zInt(6+b+4)))
}
