//go:build verif

package evalfilter

// C11 - evaluators can be used from many goroutines. Interleavings are not
// sampled: the threads' accesses and lock operations are logged and the
// solver is asked for a schedule in which two conflicting accesses are
// adjacent (a data race); the native twin replays with real goroutines under
// the race detector.

import (
	"github.com/skx/evalfilter/v2/object"
	"github.com/skx/evalfilter/v2/zzsv"
)

func init() {
	zzsv.Register("ZZ_C11_SharedEvaluator", ZZ_C11_SharedEvaluator)
	zzsv.Register("ZZ_C11_SeparateEvaluators", ZZ_C11_SeparateEvaluators)
	zzsv.Register("ZZ_C11_SharedObject", ZZ_C11_SharedObject)
}

type zzC11Obj struct {
	Count int64
	Name  string
	Meta  map[string]interface{}
}

var zzC11Scripts = []string{
	"return Count > 3;",
	"n = n + 1; return Count > n;",
	"n++; return Name ~= /^st/i;",
	"n = n + 1; if (len(Name) > 2) { return between(Count, 1, 5); } return lower(Name) == \"bo\";",
	"n += 1; foreach c in Name { if (c == \"e\") { return true; } } return false;",
	"function f(x) { return x * 2; } n = n + 1; return f(Count) > 6 && Name in [\"steve\", \"bob\"];",
	"n = n + 1; h = {\"lim\": 3, Name: Count}; return h[Name] > h[\"lim\"];",
	"n = n + 1; return Meta[\"count\"] > 3 && len(keys(Meta)) == 2;",
	// the verdict is a persistent number that every run decrements and increments again
	"n = n + 1; open--; open++; return open;",
	// scripts that assign nothing at all (no counter either) but still use
	// scopes: a loop, a function call, a nested call with a loop inside
	"foreach c in Name { if (c == \"e\") { return true; } } return false;",
	"function f(x) { return x * 2; } return f(Count) > 6;",
	"function has(s, ch) { foreach c in s { if (c == ch) { return true; } } return false; } function g(p) { return has(Name, \"e\") && p > 3; } return g(Count);",
}

// the verdict a sequential run gives (independent of n for these scripts,
// except script 1)
func zzC11Want(k int, o zzC11Obj) (bool, bool) {
	switch k {
	case 0:
		return o.Count > 3, true
	case 2:
		return len(o.Name) >= 2 && (o.Name[0] == 's' || o.Name[0] == 'S') && (o.Name[1] == 't' || o.Name[1] == 'T'), true
	case 3:
		if len(o.Name) > 2 {
			return o.Count >= 1 && o.Count <= 5, true
		}
		return o.Name == "bo" || o.Name == "BO" || o.Name == "Bo" || o.Name == "bO", true
	case 4:
		for i := 0; i < len(o.Name); i++ {
			if o.Name[i] == 'e' {
				return true, true
			}
		}
		return false, true
	case 5:
		return o.Count*2 > 6 && (o.Name == "steve" || o.Name == "bob"), true
	case 6, 7:
		return o.Count > 3, true
	case 8:
		return true, true
	case 9:
		for i := 0; i < len(o.Name); i++ {
			if o.Name[i] == 'e' {
				return true, true
			}
		}
		return false, true
	case 10:
		return o.Count*2 > 6, true
	case 11:
		e := false
		for i := 0; i < len(o.Name); i++ {
			if o.Name[i] == 'e' {
				e = true
			}
		}
		return e && o.Count > 3, true
	}
	return false, false // depends on the order of the calls
}

// ZZ_C11_SharedEvaluator: N goroutines call Run on one prepared evaluator
// with different objects: no data race, every object gets the verdict a
// sequential run gives it, and a counter updated on every run loses nothing.
func ZZ_C11_SharedEvaluator(sv *zzsv.T) {
	k := sv.Choice("script", len(zzC11Scripts))
	n := sv.Param("goroutines", 2, 3)
	names := []string{"steve", "bo", "Stan"}
	e := New(zzC11Scripts[k])
	sv.Note("script", e.Script)
	e.SetVariable("n", &object.Integer{Value: 0})
	e.SetVariable("open", &object.Integer{Value: 1})
	sv.Assume(e.Prepare() == nil)
	objs := make([]zzC11Obj, n)
	verdict := make([]bool, n)
	failed := make([]bool, n)
	for i := 0; i < n; i++ {
		i := i
		c := sv.Int64("Count")
		sv.Assume(c >= 0)
		sv.Assume(c <= 9)
		objs[i] = zzC11Obj{Count: c, Name: names[i], Meta: map[string]interface{}{"count": c, "name": names[i]}}
		sv.Go(func() {
			v, err := e.Run(objs[i])
			verdict[i] = v
			failed[i] = err != nil
		})
	}
	sv.Wait()
	for i := 0; i < n; i++ {
		sv.Observe("run", failed[i])
		sv.Assert("C11.shared.noerror", !failed[i])
		if want, fixed := zzC11Want(k, objs[i]); fixed && !failed[i] {
			sv.Assert("C11.shared.sequential_verdict", verdict[i] == want)
		}
	}
	if k != 0 && k < 9 {
		sv.Assert("C11.shared.no_lost_update", zzSame(sv, e.GetVariable("n"), zInt(int64(n))))
	}
}

// ZZ_C11_SeparateEvaluators: M goroutines each prepare and run their own
// evaluator (they share package-level state only).
func ZZ_C11_SeparateEvaluators(sv *zzsv.T) {
	k := sv.Choice("script", len(zzC11Scripts))
	m := sv.Param("goroutines", 2, 3)
	names := []string{"steve", "bo", "Stan"}
	sv.Note("script", zzC11Scripts[k])
	verdict := make([]bool, m)
	failed := make([]bool, m)
	objs := make([]zzC11Obj, m)
	for i := 0; i < m; i++ {
		i := i
		c := sv.Int64("Count")
		sv.Assume(c >= 0)
		sv.Assume(c <= 9)
		objs[i] = zzC11Obj{Count: c, Name: names[i], Meta: map[string]interface{}{"count": c, "name": names[i]}}
		sv.Go(func() {
			e := New(zzC11Scripts[k])
			e.SetVariable("n", &object.Integer{Value: 0})
			e.SetVariable("open", &object.Integer{Value: 1})
			if e.Prepare() != nil {
				failed[i] = true
				return
			}
			v, err := e.Run(objs[i])
			verdict[i] = v
			failed[i] = err != nil
		})
	}
	sv.Wait()
	for i := 0; i < m; i++ {
		sv.Observe("run", failed[i])
		sv.Assert("C11.separate.noerror", !failed[i])
		if want, fixed := zzC11Want(k, objs[i]); !failed[i] {
			if !fixed {
				want = objs[i].Count > 1 // script 1 with a fresh evaluator: n is 1
			}
			sv.Assert("C11.separate.verdict", verdict[i] == want)
		}
	}
}

// ZZ_C11_SharedObject: different evaluators, used from different
// goroutines, that were given the very same object with SetVariable (an
// array, a hash, a string) and walk over it, index it and measure it: no
// data race, and each run returns what a run alone returns.
func ZZ_C11_SharedObject(sv *zzsv.T) {
	scripts := []string{
		"s = 0; foreach v in shared { s = s + v; } return s;",
		"s = 0; foreach i, v in shared { foreach w in shared { s = s + w; } } return s;",
		"function sum(a) { t = 0; foreach v in a { t = t + v; } return t; } return sum(shared) + len(shared) + shared[0];",
		"s = 0; foreach k, v in sharedh { s = s + v; } return s + len(keys(sharedh));",
		"s = \"\"; foreach c in shareds { s = s + c; } return len(s);",
	}
	k := sv.Choice("script", len(scripts))
	sv.Note("script", scripts[k])
	m := sv.Param("goroutines", 2, 3)
	a := sv.Int64("a")
	b := sv.Int64("b")
	sv.Assume(a >= 0 && a <= 9 && b >= 0 && b <= 9)
	arr := &object.Array{Elements: []object.Object{&object.Integer{Value: a}, &object.Integer{Value: b}, &object.Integer{Value: 3}}}
	ka, kb := &object.String{Value: "a"}, &object.String{Value: "b"}
	hsh := &object.Hash{Pairs: map[object.HashKey]object.HashPair{ka.HashKey(): {Key: ka, Value: &object.Integer{Value: a}}, kb.HashKey(): {Key: kb, Value: &object.Integer{Value: b}}}}
	str := &object.String{Value: "héllo"}
	var want int64
	switch k {
	case 0:
		want = a + b + 3
	case 1:
		want = 3 * (a + b + 3)
	case 2:
		want = a + b + 3 + 3 + a
	case 3:
		want = a + b + 2
	default:
		want = 5
	}
	got := make([]int64, m)
	failed := make([]bool, m)
	for i := 0; i < m; i++ {
		i := i
		sv.Go(func() {
			e := New(scripts[k])
			e.SetVariable("shared", arr)
			e.SetVariable("sharedh", hsh)
			e.SetVariable("shareds", str)
			if e.Prepare() != nil {
				failed[i] = true
				return
			}
			out, err := e.Execute(nil)
			if err != nil {
				failed[i] = true
				return
			}
			if n, ok := out.(*object.Integer); ok {
				got[i] = n.Value
			} else {
				failed[i] = true
			}
		})
	}
	sv.Wait()
	for i := 0; i < m; i++ {
		sv.Observe("run", failed[i])
		sv.Assert("C11.sharedobject.noerror", !failed[i])
		if !failed[i] {
			sv.Assert("C11.sharedobject.value", got[i] == want)
		}
	}
}
