//go:build verif

package evalfilter

// C15 - numbers, strings and booleans are values, not shared cells.

import (
	"github.com/skx/evalfilter/v2/object"
	"github.com/skx/evalfilter/v2/zzsv"
)

func init() {
	zzsv.Register("ZZ_C15_Copies", ZZ_C15_Copies)
	zzsv.Register("ZZ_C15_Host", ZZ_C15_Host)
	zzsv.Register("ZZ_C15_LoopValues", ZZ_C15_LoopValues)
	zzsv.Register("ZZ_C15_IndexOperands", ZZ_C15_IndexOperands)
}

func stIncr(name, op string, e *zzExpr) *zzStmt { return &zzStmt{kind: sIncr, name: name, op: op, e: e} }

type zzC15Field struct{ F int64 }

// ZZ_C15_Copies: copy a value (assignment, parameter, array element, field),
// mutate one copy with ++ -- += -= *= /=, read the other. Integer literals
// are symbolic in [0, 70000] (both sides of the inline limit 65534); bodies
// run in a loop and over two runs, so a literal must denote the same value
// every time it is evaluated.
func ZZ_C15_Copies(sv *zzsv.T) {
	ops := []string{"++", "--", "+=", "-=", "*=", "/="}
	op := ops[sv.Choice("op", len(ops))]
	var operand *zzExpr
	if op != "++" && op != "--" {
		operand = xLit(3)
	}
	// the source value: symbolic integer literal, float literal, string or boolean
	var lit *zzExpr
	kind := sv.Choice("valuekind", 3) // (boolean + boolean is unspecified: no mutator applies to booleans)
	switch kind {
	case 0:
		lit = xSym(0)
	case 1:
		lit = xFloat("1.5", 1.5)
	case 2:
		lit = &zzExpr{kind: eStr, s: "ab"}
		sv.Assume(op == "+=")
		operand = &zzExpr{kind: eStr, s: "c"}
	default:
		lit = &zzExpr{kind: eTrue}
		sv.Assume(op == "+=")
		operand = &zzExpr{kind: eTrue}
	}
	mut := func(name string) *zzStmt { return stIncr(name, op, operand) }
	var p *zzProg
	scen := sv.Choice("scenario", 19)
	switch scen {
	case 0: // assignment copies
		p = &zzProg{main: []*zzStmt{stSet("x", lit), stSet("y", xVar("x")), mut("y"), stT(xVar("y")), stRet(xVar("x"))}}
	case 1: // mutate the source, read the copy
		p = &zzProg{main: []*zzStmt{stSet("x", lit), stSet("y", xVar("x")), mut("x"), stT(xVar("x")), stRet(xVar("y"))}}
	case 2: // parameter passing copies
		p = &zzProg{funcs: []*zzFunc{{name: "f", params: []string{"p"}, body: []*zzStmt{mut("p"), stRet(xVar("p"))}}},
			main: []*zzStmt{stSet("x", lit), stSet("r", xCall("f", xVar("x"))), stT(xVar("r")), stRet(xVar("x"))}}
	case 3: // array element is a copy
		p = &zzProg{main: []*zzStmt{stSet("x", lit), stSet("a", &zzExpr{kind: eArr, args: []*zzExpr{xVar("x")}}), mut("x"), stT(xVar("x")),
			stEach("", "v", xVar("a"), stT(xVar("v")))}}
	case 4: // a literal in a loop body denotes the same value in every iteration
		p = &zzProg{main: []*zzStmt{stSet("n", xLit(0)), stWhile(xBin("<", xVar("n"), xLit(2)), stSet("x", lit), mut("x"), stT(xVar("x")), stSet("n", xBin("+", xVar("n"), xLit(1)))), stRet(xVar("x"))}}
	case 5: // loop variable copies of array elements
		p = &zzProg{main: []*zzStmt{stSet("x", lit), stSet("a", &zzExpr{kind: eArr, args: []*zzExpr{xVar("x"), xVar("x")}}), stEach("", "v", xVar("a"), mut("v"), stT(xVar("v"))), stRet(xVar("x"))}}
	case 7: // mutate, copy, mutate again: the copy keeps the value it was given
		p = &zzProg{main: []*zzStmt{stSet("x", lit), mut("x"), stSet("y", xVar("x")), mut("x"), stT(xVar("x")), stRet(xVar("y"))}}
	case 8: // mutate, pass, mutate inside the callee
		p = &zzProg{funcs: []*zzFunc{{name: "f", params: []string{"p"}, body: []*zzStmt{mut("p"), stRet(xVar("p"))}}},
			main: []*zzStmt{stSet("x", lit), mut("x"), stSet("r", xCall("f", xVar("x"))), stT(xVar("r")), stRet(xVar("x"))}}
	case 9: // remember the previous value of a counter inside a loop
		p = &zzProg{main: []*zzStmt{stSet("x", lit), stSet("n", xLit(0)), stWhile(xBin("<", xVar("n"), xLit(2)), stSet("y", xVar("x")), mut("x"), stT(xVar("y")), stSet("n", xBin("+", xVar("n"), xLit(1)))), stRet(xVar("x"))}}
	case 10: // the same literal written plain and negated
		sv.Assume(kind != 2)
		p = &zzProg{main: []*zzStmt{stSet("x", lit), stSet("y", xNeg(lit)), mut("x"), stT(xVar("y")), stT(lit), stRet(xVar("x"))}}
	case 11: // negated twice
		sv.Assume(kind != 2)
		p = &zzProg{main: []*zzStmt{stSet("x", xNeg(lit)), stSet("y", xNeg(lit)), mut("x"), stT(xVar("x")), stT(xBin("+", lit, xLit(0))), stRet(xVar("y"))}}
	case 12: // negated inside a function, plain outside
		sv.Assume(kind != 2)
		p = &zzProg{funcs: []*zzFunc{{name: "f", body: []*zzStmt{stRet(xNeg(lit))}}},
			main: []*zzStmt{stSet("x", lit), stSet("r", xCall("f")), mut("x"), stT(xVar("r")), stSet("r", xCall("f")), stT(xVar("r")), stRet(xVar("x"))}}
	case 13: // the callee's parameter has the same name as the caller's own parameter it was copied from
		p = &zzProg{funcs: []*zzFunc{
			{name: "f", params: []string{"p"}, body: []*zzStmt{mut("p"), stRet(xVar("p"))}},
			{name: "outer", params: []string{"p"}, body: []*zzStmt{stSet("r", xCall("f", xVar("p"))), stT(xVar("r")), stRet(xVar("p"))}}},
			main: []*zzStmt{stSet("x", lit), stSet("y", xCall("outer", xVar("x"))), stT(xVar("y")), stRet(xVar("x"))}}
	case 14: // ... or as the loop variable of the caller
		p = &zzProg{funcs: []*zzFunc{
			{name: "f", params: []string{"v"}, body: []*zzStmt{mut("v"), stRet(xVar("v"))}}},
			main: []*zzStmt{stSet("x", lit), stEach("", "v", &zzExpr{kind: eArr, args: []*zzExpr{xVar("x"), xVar("x")}}, stSet("r", xCall("f", xVar("v"))), stT(xVar("r")), stT(xVar("v"))), stRet(xVar("x"))}}
	case 15: // a value computed inside an array literal, mutated through the loop variable
		el := xBin("+", xVar("x"), xVar("x"))
		p = &zzProg{main: []*zzStmt{stSet("x", lit), stSet("a", &zzExpr{kind: eArr, args: []*zzExpr{el, xVar("x")}}),
			stEach("", "v", xVar("a"), mut("v"), stT(xVar("v"))), stEach("", "v", xVar("a"), stT(xVar("v"))), stRet(xVar("x"))}}
	case 16: // ... mutated through a parameter
		el := xBin("+", xVar("x"), xVar("x"))
		p = &zzProg{funcs: []*zzFunc{{name: "f", params: []string{"p"}, body: []*zzStmt{mut("p"), stRet(xVar("p"))}}},
			main: []*zzStmt{stSet("x", lit), stSet("a", &zzExpr{kind: eArr, args: []*zzExpr{el}}),
				stEach("", "v", xVar("a"), stSet("r", xCall("f", xVar("v"))), stT(xVar("r"))), stEach("", "v", xVar("a"), stT(xVar("v"))), stRet(xVar("x"))}}
	case 17: // a computed value passed straight to a function that mutates its parameter, then computed again
		p = &zzProg{funcs: []*zzFunc{{name: "f", params: []string{"p"}, body: []*zzStmt{mut("p"), stRet(xVar("p"))}}},
			main: []*zzStmt{stSet("x", lit), stSet("r", xCall("f", xBin("+", xVar("x"), xVar("x")))), stT(xVar("r")), stSet("y", xBin("+", xVar("x"), xVar("x"))), stT(xVar("y")), stRet(xVar("x"))}}
	default: // object field: y = F; y op; F unchanged
		sv.Assume(kind == 0)
		p = &zzProg{main: []*zzStmt{stSet("y", xVar("F")), mut("y"), stT(xVar("y")), stRet(xVar("F"))}}
	}
	src := p.text()
	sv.Note("script", src+"   (7001 is a symbolic literal)")
	l := sv.Int64("L")
	sv.Assume(l >= 0)
	sv.Assume(l <= 70000)
	fval := sv.Int64("F")
	var trace []object.Object
	prog, ok := zzParseWithLits(sv, src, []int64{l})
	sv.Assume(ok)
	e := New(src)
	e.AddFunction("t", func(args []object.Object) object.Object {
		trace = append(trace, args[0])
		return &object.Void{}
	})
	sv.Assume(zzPrepareAST(e, prog, sv.Choice("noopt", 2) == 0) == nil)
	obj := zzC15Field{F: fval}
	fields := map[string]zv{"F": zInt(fval)}
	for run := 0; run < 2; run++ {
		trace = nil
		out, err := e.Execute(obj)
		// the reference starts each run from the variables the previous run left
		ref := &zzRef{sv: sv, prog: p, globals: map[string]zv{}, fields: fields, lits: []int64{l}}
		if run == 1 {
			// variables persist between runs by design: take them from the evaluator's own first-run reference
			for k, v := range zzC15Prev {
				ref.globals[k] = v
			}
		}
		ret := ref.block(p.main)
		want := zNull()
		if ret.returned {
			want = ret.v
		}
		zzC15Prev = ref.globals
		zzDescribe(sv, "result", out, err)
		zzCompareRun(sv, "C15", e, out, err, trace, ref, want, []string{"x", "y"})
		if ref.failed || err != nil {
			return
		}
	}
}

var zzC15Prev map[string]zv

// ZZ_C15_Host: a value handed in with SetVariable is not changed behind the
// host's back when the script mutates a copy of it.
func ZZ_C15_Host(sv *zzsv.T) {
	ops := []string{"++", "--"}
	op := ops[sv.Choice("op", 2)]
	v := sv.Int64("h")
	hostObj := &object.Integer{Value: v}
	e := New("y = h; y" + op + "; return y;")
	sv.Note("script", e.Script)
	e.SetVariable("h", hostObj)
	sv.Assume(e.Prepare() == nil)
	out, err := e.Execute(nil)
	zzDescribe(sv, "result", out, err)
	d := int64(1)
	if op == "--" {
		d = -1
	}
	sv.Assert("C15.host.result", err == nil && zzSame(sv, out, zInt(v+d)))
	sv.Assert("C15.host.variable_unchanged", zzSame(sv, e.GetVariable("h"), zInt(v)))
	sv.Assert("C15.host.object_unchanged", hostObj.Value == v)
}

// ZZ_C15_LoopValues: the values a foreach hands out (characters and indexes
// of a string, elements of an array or range, keys and values of a hash) are
// values like any other: kept in another variable - directly, through a
// function, or as "the previous one" - they still read the same after the
// loop has moved on.
func ZZ_C15_LoopValues(sv *zzsv.T) {
	vars := map[string]zv{}
	var order []string
	var it *zzExpr
	n := 1 + sv.Choice("len", 3) // 1..3 entries
	switch sv.Choice("container", 5) {
	case 0: // string variable: symbolic ASCII or multi-byte characters
		s, _ := zzChars(sv, "s", n)
		vars["S"] = zStr(s)
		order = append(order, "S")
		it = xVar("S")
	case 1: // string literal
		it = &zzExpr{kind: eStr, s: []string{"x", "xy", "xyz"}[n-1]}
	case 2: // array of integers
		av := zv{t: tArray}
		for k := 0; k < n; k++ {
			av.arr = append(av.arr, zInt(sv.Int64("el")))
		}
		vars["A"] = av
		order = append(order, "A")
		it = xVar("A")
	case 3: // range
		it = &zzExpr{kind: eRange, a: xLit(5), b: xLit(int64(4 + n))}
	default: // hash (keys in sorted order)
		hv := zv{t: tHash}
		for k := 0; k < n; k++ {
			hv.hk = append(hv.hk, zStr([]string{"a", "b", "c"}[k]))
			hv.hv = append(hv.hv, zInt(sv.Int64("hv")))
		}
		vars["H"] = hv
		order = append(order, "H")
		it = xVar("H")
	}
	k := sv.Int64("K")
	sv.Assume(k >= 0 && k <= 2)
	vars["K"] = zInt(k)
	order = append(order, "K")
	var p *zzProg
	keepAt := func(body ...*zzStmt) *zzStmt { return stIf(xBin("==", xVar("n"), xVar("K")), body...) }
	count := stSet("n", xBin("+", xVar("n"), xLit(1)))
	switch sv.Choice("shape", 4) {
	case 0: // keep the K-th value and index
		p = &zzProg{main: []*zzStmt{stSet("n", xLit(0)), stSet("x", xLit(-1)), stSet("y", xLit(-1)),
			stEach("i", "c", it, keepAt(stSet("x", xVar("c")), stSet("y", xVar("i"))), count),
			stT(xVar("x")), stT(xVar("y")), stRet(xVar("x"))}}
	case 1: // keep it through a function
		p = &zzProg{funcs: []*zzFunc{{name: "keep", params: []string{"p", "q"}, body: []*zzStmt{stSet("x", xVar("p")), stSet("y", xVar("q")), stRet(xLit(0))}}},
			main: []*zzStmt{stSet("n", xLit(0)), stSet("x", xLit(-1)), stSet("y", xLit(-1)),
				stEach("i", "c", it, keepAt(stSet("r", xCall("keep", xVar("c"), xVar("i")))), count),
				stT(xVar("x")), stT(xVar("y")), stRet(xVar("y"))}}
	case 2: // the previous value, reported one step later
		p = &zzProg{main: []*zzStmt{stSet("x", xLit(-1)), stSet("y", xLit(-1)),
			stEach("i", "c", it, stT(xVar("x")), stT(xVar("y")), stSet("x", xVar("c")), stSet("y", xVar("i"))),
			stT(xVar("x")), stRet(xVar("y"))}}
	default: // kept in an array built inside the loop
		p = &zzProg{main: []*zzStmt{stSet("n", xLit(0)), stSet("x", &zzExpr{kind: eArr}),
			stEach("i", "c", it, keepAt(stSet("x", &zzExpr{kind: eArr, args: []*zzExpr{xVar("c"), xVar("i")}})), count),
			stEach("", "v", xVar("x"), stT(xVar("v"))), stRet(xVar("n"))}}
	}
	src := p.text()
	sv.Note("script", src)
	var trace []object.Object
	e, err := zzPrepare(sv, src, vars, order, sv.Choice("noopt", 2) == 1, &trace)
	sv.Assume(err == nil)
	out, rerr := e.Execute(nil)
	ref, want := zzRunRef(sv, p, vars, nil)
	zzDescribe(sv, "result", out, rerr)
	zzCompareRun(sv, "C15.loop", e, out, rerr, trace, ref, want, []string{"x", "y", "n"})
}

// ZZ_C15_IndexOperands: arithmetic and compound assignment whose right
// operand comes out of a container (an array element, a hash value under a
// key that is a symbolic literal, an index that is itself computed): the
// container's element, other variables that hold the same value and the
// literals keep their values - over two runs.
func ZZ_C15_IndexOperands(sv *zzsv.T) {
	templates := []string{
		"h = {7001: 10, 7002: 20}; x = 5; x += h[7001]; t(x); t(h[7001]); x = x + h[7002]; t(h[7002]); return h[7001] + h[7002];",
		"a = [10, 20, 30]; i = 0; x = 5; x += a[i + 1]; t(a[1]); y = 1 + a[7001 - 7001]; t(y); t(a[0]); x -= a[2]; return a[0] + a[1] + a[2];",
		"lim = 7; h = {7001: lim}; x = 100; x += h[7001]; x *= h[7001]; t(x); t(lim); return h[7001];",
		"function add(p, q) { p += q[7001 - 7001]; return p; } a = [7002]; r = add(1, a); t(r); t(a[0]); return add(2, a) + a[0];",
		"k = 7001; a = [k, k]; foreach v in a { s = 3; s += a[0]; s = s - a[1]; t(s); } t(k); return a[0] - k;",
	}
	k := sv.Choice("template", len(templates))
	src := templates[k]
	sv.Note("script", src+"   (7001, 7002 are symbolic literals)")
	l1 := sv.Int64("L1")
	l2 := sv.Int64("L2")
	sv.Assume(l1 >= 0 && l1 <= 70000 && l2 >= 0 && l2 <= 70000 && l1 != l2)
	var trace []object.Object
	prog, ok := zzParseWithLits(sv, src, []int64{l1, l2})
	sv.Assume(ok)
	e := New(src)
	e.AddFunction("t", func(args []object.Object) object.Object {
		trace = append(trace, args[0])
		return &object.Void{}
	})
	sv.Assume(zzPrepareAST(e, prog, sv.Choice("noopt", 2) == 0) == nil)
	var wantTrace []int64
	var want int64
	switch k {
	case 0:
		wantTrace, want = []int64{15, 10, 20}, 30
	case 1:
		wantTrace, want = []int64{20, 11, 10}, 60
	case 2:
		wantTrace, want = []int64{749, 7}, 7
	case 3:
		wantTrace, want = []int64{1 + l2, l2}, 2+l2+l2
	default:
		wantTrace, want = []int64{3, 3, l1}, 0
	}
	for run := 0; run < 2; run++ {
		trace = nil
		out, err := e.Execute(nil)
		zzDescribe(sv, "result", out, err)
		sv.Assert("C15.index.result", err == nil && zzSame(sv, out, zInt(want)))
		sv.Assert("C15.index.calls", len(trace) == len(wantTrace))
		if len(trace) == len(wantTrace) {
			for i := range trace {
				sv.Assert("C15.index.trace", zzSame(sv, trace[i], zInt(wantTrace[i])))
			}
		}
	}
}
