//go:build verif

package evalfilter

// C12 - expressions parse with the documented precedence and grouping.
// Oracle 1 compares the tree returned by the real parser with the tree of
// an independent precedence-climbing parser parameterised only by the
// statement's binding order. Oracle 2 executes the text with minimal,
// redundant and full parenthesisation on symbolic operands.

import (
	"github.com/skx/evalfilter/v2/ast"
	"github.com/skx/evalfilter/v2/lexer"
	"github.com/skx/evalfilter/v2/object"
	"github.com/skx/evalfilter/v2/parser"
	"github.com/skx/evalfilter/v2/zzsv"
)

func init() {
	zzsv.Register("ZZ_C12_Shape", ZZ_C12_Shape)
	zzsv.Register("ZZ_C12_Meaning", ZZ_C12_Meaning)
	zzsv.Register("ZZ_C12_Ternary", ZZ_C12_Ternary)
}

// binding order from the statement, strongest first:
// index/call, prefix, %, **, * /, + -, comparisons and ~= !~ in, == !=,
// && ||, range/assignment, ternary.
var zzLevels = map[string]int{
	"%": 9, "**": 8, "*": 7, "/": 7, "+": 6, "-": 6,
	"<": 5, "<=": 5, ">": 5, ">=": 5, "~=": 5, "!~": 5, "in": 5,
	"==": 4, "!=": 4, "&&": 3, "||": 3, "..": 2,
}

var zzPrecOps = []string{"%", "**", "*", "/", "+", "-", "<", "<=", ">", ">=", "~=", "!~", "in", "==", "!=", "&&", "||", ".."}

// zzPT is a reference parse tree.
type zzPT struct {
	kind string // "id", "infix", "prefix", "index", "call", "tern"
	op   string
	kids []*zzPT
}

func ptID(n string) *zzPT { return &zzPT{kind: "id", op: n} }

// zzClimb: precedence climbing over operands[0] ops[0] operands[1] ...
// with left-to-right grouping at equal levels.
func zzClimb(operands []*zzPT, ops []string) *zzPT {
	pos := 0
	var parse func(min int) *zzPT
	parse = func(min int) *zzPT {
		left := operands[pos]
		for pos < len(ops) && zzLevels[ops[pos]] >= min {
			op := ops[pos]
			pos++
			right := parse(zzLevels[op] + 1)
			left = &zzPT{kind: "infix", op: op, kids: []*zzPT{left, right}}
		}
		return left
	}
	return parse(0)
}

func (t *zzPT) text(full bool) string {
	switch t.kind {
	case "id":
		return t.op
	case "prefix":
		if full {
			return "(" + t.op + t.kids[0].text(full) + ")"
		}
		return t.op + t.kids[0].text(full)
	case "str":
		return "\"" + t.op + "\""
	case "arr":
		out := "["
		for i, k := range t.kids {
			if i > 0 {
				out += ", "
			}
			out += k.text(full)
		}
		return out + "]"
	case "hash":
		return "{" + t.kids[0].text(full) + ": " + t.kids[1].text(full) + "}"
	case "field":
		return t.kids[0].text(full) + "." + t.kids[1].text(full)
	case "index":
		return t.kids[0].text(full) + "[" + t.kids[1].text(full) + "]"
	case "call":
		return t.kids[0].text(full) + "(" + t.kids[1].text(full) + ")"
	case "infix":
		s := t.kids[0].text(full) + " " + t.op + " " + t.kids[1].text(full)
		if full {
			return "(" + s + ")"
		}
		return s
	}
	return "?"
}

// zzSameTree compares a real AST with a reference tree by node kind,
// operator and children (never by String()).
func zzSameTree(n ast.Expression, r *zzPT) bool {
	if n == nil || r == nil {
		return false
	}
	switch x := n.(type) {
	case *ast.Identifier:
		return r.kind == "id" && x.Value == r.op
	case *ast.IntegerLiteral:
		return r.kind == "id" && x.Token.Literal == r.op
	case *ast.InfixExpression:
		if x.Operator == "." {
			// (the member name reaches the tree as a string)
			name, isName := x.Right.(*ast.StringLiteral)
			return r.kind == "field" && zzSameTree(x.Left, r.kids[0]) && isName && name.Value == r.kids[1].op
		}
		return r.kind == "infix" && x.Operator == r.op && zzSameTree(x.Left, r.kids[0]) && zzSameTree(x.Right, r.kids[1])
	case *ast.PrefixExpression:
		return r.kind == "prefix" && x.Operator == r.op && zzSameTree(x.Right, r.kids[0])
	case *ast.StringLiteral:
		return r.kind == "str" && x.Value == r.op
	case *ast.ArrayLiteral:
		if r.kind != "arr" || len(x.Elements) != len(r.kids) {
			return false
		}
		for i := range r.kids {
			if !zzSameTree(x.Elements[i], r.kids[i]) {
				return false
			}
		}
		return true
	case *ast.HashLiteral:
		if r.kind != "hash" || len(x.Pairs) != 1 {
			return false
		}
		for k, v := range x.Pairs {
			return zzSameTree(k, r.kids[0]) && zzSameTree(v, r.kids[1])
		}
		return false
	case *ast.IndexExpression:
		return r.kind == "index" && zzSameTree(x.Left, r.kids[0]) && zzSameTree(x.Index, r.kids[1])
	case *ast.CallExpression:
		return r.kind == "call" && zzSameTree(x.Function, r.kids[0]) && len(x.Arguments) == 1 && zzSameTree(x.Arguments[0], r.kids[1])
	}
	return false
}

func zzParseReturn(src string) (ast.Expression, bool) {
	p := parser.New(lexer.New(src))
	prog, err := p.Parse()
	if err != nil || prog == nil || len(prog.Statements) != 1 {
		return nil, false
	}
	// (an expression is a statement of its own as well)
	if es, isExpr := prog.Statements[0].(*ast.ExpressionStatement); isExpr {
		return es.Expression, es.Expression != nil
	}
	rs, ok := prog.Statements[0].(*ast.ReturnStatement)
	if !ok {
		return nil, false
	}
	return rs.ReturnValue, true
}

// zzOperand decorates an operand with prefix operators before and
// index/call after it.
func zzOperand(sv *zzsv.T, name string, decorate bool) *zzPT {
	t := ptID(name)
	if !decorate {
		return t
	}
	// literal containers and strings as operands, indexed in place; chains of
	// index / call / field selections: index and call bind tightest of all
	idx := func(l, i *zzPT) *zzPT { return &zzPT{kind: "index", kids: []*zzPT{l, i}} }
	if atom := sv.Choice("atom", 10); atom > 0 {
		switch atom {
		case 1:
			t = idx(&zzPT{kind: "arr", kids: []*zzPT{ptID("x"), ptID("y")}}, ptID("i"))
		case 2:
			t = idx(&zzPT{kind: "hash", kids: []*zzPT{{kind: "str", op: "k"}, ptID("x")}}, &zzPT{kind: "str", op: "k"})
		case 3:
			t = &zzPT{kind: "field", kids: []*zzPT{{kind: "hash", kids: []*zzPT{{kind: "str", op: "k"}, ptID("x")}}, ptID("k")}}
		case 4:
			t = idx(&zzPT{kind: "str", op: "s"}, ptID("i"))
		case 5:
			t = idx(idx(t, ptID("i")), ptID("j"))
		case 6:
			t = idx(&zzPT{kind: "call", kids: []*zzPT{t, ptID("i")}}, ptID("j"))
		case 7:
			t = idx(&zzPT{kind: "field", kids: []*zzPT{t, ptID("k")}}, ptID("i"))
		case 8:
			t = &zzPT{kind: "arr", kids: []*zzPT{ptID("x"), ptID("y")}}
		default:
			t = idx(&zzPT{kind: "arr", kids: []*zzPT{idx(&zzPT{kind: "arr", kids: []*zzPT{ptID("x")}}, ptID("i")), ptID("y")}}, ptID("j"))
		}
		if sv.Choice("neg", 2) == 1 {
			t = &zzPT{kind: "prefix", op: "-", kids: []*zzPT{t}}
		}
		return t
	}
	post := sv.Choice("post", 3)
	switch post {
	case 1:
		t = &zzPT{kind: "index", kids: []*zzPT{t, ptID("i")}}
	case 2:
		t = &zzPT{kind: "call", kids: []*zzPT{t, ptID("i")}}
	}
	// one prefix operator, or two different ones: each applies to everything
	// to its right (the operator written first is the outer one)
	pre := func(op string, x *zzPT) *zzPT { return &zzPT{kind: "prefix", op: op, kids: []*zzPT{x}} }
	npre := 8
	if post != 0 {
		npre = 4 // (pairs of prefix operators only on a plain operand: bounds the product)
	}
	switch sv.Choice("pre", npre) {
	case 1:
		t = pre("-", t)
	case 2:
		t = pre("!", t)
	case 3:
		t = pre("√", t)
	case 4:
		t = pre("-", pre("√", t))
	case 5:
		t = pre("!", pre("-", t))
	case 6:
		t = pre("√", pre("-", t))
	case 7:
		t = pre("-", pre("!", pre("√", t)))
	}
	return t
}

// ZZ_C12_Shape: for all pairs (quick) / triples (thorough) of adjacent
// binary operators, with prefix operators before and index/call after the
// operands, the parser's tree is the reference tree; full parenthesisation
// of that tree parses to the same tree again.
func ZZ_C12_Shape(sv *zzsv.T) {
	nops := sv.Param("shape.nops", 2, 3)
	var ops []string
	for k := 0; k < nops; k++ {
		ops = append(ops, zzPrecOps[sv.Choice("op", len(zzPrecOps))])
	}
	names := []string{"a", "b", "c", "d"}
	decorated := sv.Choice("decorated", nops+2) // which operand carries prefix/postfix (nops+1 = none)
	var operands []*zzPT
	for k := 0; k <= nops; k++ {
		operands = append(operands, zzOperand(sv, names[k], k == decorated))
	}
	// flat text: the operand of `return`, or a statement of its own
	intro := "return "
	if decorated == 0 && sv.Choice("as_statement", 2) == 1 {
		// (what a statement begins with matters when the first operand is the
		// decorated one: a literal, a prefix operator, a parenthesis)
		intro = ""
	}
	flat := intro + operands[0].text(false)
	for k, op := range ops {
		flat += " " + op + " " + operands[k+1].text(false)
	}
	flat += ";"
	ref := zzClimb(operands, ops)
	sv.Note("script", flat)
	sv.Note("expected_grouping", ref.text(true))
	got, ok := zzParseReturn(flat)
	sv.Observe("parsed", ok)
	sv.Assert("C12.shape.parses", ok)
	if !ok {
		return
	}
	sv.Assert("C12.shape.grouping", zzSameTree(got, ref))
	// parentheses that the rules already imply change nothing
	got2, ok2 := zzParseReturn("return " + ref.text(true) + ";")
	if intro == "" {
		// (as a statement the fully parenthesised text would begin with "(":
		// keep `x = ` in front so that it stays one expression)
		got2, ok2 = zzParseReturn("return " + ref.text(true) + ";")
	}
	sv.Assert("C12.shape.full_parens_same", ok2 && zzSameTree(got2, ref))
}

var zzArith = []string{"+", "-", "*", "/", "%", "<", "<=", ">", "==", "!=", "&&", "||"}

// ZZ_C12_Meaning: a script means the same whether or not redundant
// parentheses are written around the sub-expressions the rules imply - and
// regrouping parentheses are honoured - for all operand values.
func ZZ_C12_Meaning(sv *zzsv.T) {
	op1 := zzArith[sv.Choice("op1", len(zzArith))]
	op2 := zzArith[sv.Choice("op2", len(zzArith))]
	a, b, c := sv.Int64("a"), sv.Int64("b"), sv.Int64("c")
	ref := zzClimb([]*zzPT{ptID("a"), ptID("b"), ptID("c")}, []string{op1, op2})
	minimal := "return a " + op1 + " b " + op2 + " c;"
	full := "return " + ref.text(true) + ";"
	redundant := "return (a) " + op1 + " ((b)) " + op2 + " (c);"
	sv.Note("script", minimal)
	sv.Note("full", full)
	run := func(src string) (object.Object, error, bool) {
		e := New(src)
		e.SetVariable("a", &object.Integer{Value: a})
		e.SetVariable("b", &object.Integer{Value: b})
		e.SetVariable("c", &object.Integer{Value: c})
		if e.Prepare() != nil {
			return nil, nil, false
		}
		o, err := e.Execute(nil)
		return o, err, true
	}
	o1, e1, p1 := run(minimal)
	o2, e2, p2 := run(full)
	o3, e3, p3 := run(redundant)
	sv.Assert("C12.meaning.all_prepare", p1 && p2 && p3)
	if !(p1 && p2 && p3) {
		return
	}
	zzDescribe(sv, "minimal", o1, e1)
	sv.Assert("C12.meaning.full_same_failure", (e1 != nil) == (e2 != nil))
	sv.Assert("C12.meaning.redundant_same_failure", (e1 != nil) == (e3 != nil))
	if e1 == nil && e2 == nil {
		sv.Assert("C12.meaning.full_same_value", zzSameObj(sv, o1, o2))
	}
	if e1 == nil && e3 == nil {
		sv.Assert("C12.meaning.redundant_same_value", zzSameObj(sv, o1, o3))
	}
	// the language definition of the grouped expression (C01's table)
	var k int
	var want zv
	l, r := ref.kids[0], ref.kids[1]
	val := func(t *zzPT) (int, zv) {
		if t.kind == "id" {
			switch t.op {
			case "a":
				return kValue, zInt(a)
			case "b":
				return kValue, zInt(b)
			}
			return kValue, zInt(c)
		}
		_, lv := kValue, zv{}
		x, y := t.kids[0], t.kids[1]
		get := func(u *zzPT) zv {
			switch u.op {
			case "a":
				return zInt(a)
			case "b":
				return zInt(b)
			}
			return zInt(c)
		}
		lv = get(x)
		return zzSpecC12(sv, t.op, lv, get(y))
	}
	k1, v1 := val(l)
	k2, v2 := val(r)
	if k1 == kValue && k2 == kValue {
		k, want = zzSpecC12(sv, ref.op, v1, v2)
	} else if k1 == kError || k2 == kError {
		k = kError
	} else {
		k = kUnspec
	}
	switch k {
	case kValue:
		sv.Assert("C12.meaning.value", e1 == nil && zzSame(sv, o1, want))
	case kError:
		sv.Assert("C12.meaning.error", e1 != nil)
	}
}

// zzSpecC12 extends C01's table with && and || (C05's definition).
func zzSpecC12(sv *zzsv.T, op string, l, r zv) (int, zv) {
	switch op {
	case "&&":
		return kValue, zBool(sv.All(zzTruth(l), zzTruth(r)))
	case "||":
		return kValue, zBool(sv.Any(zzTruth(l), zzTruth(r)))
	}
	return zzSpecBinary(sv, op, l, r)
}

// ZZ_C12_Ternary: the ternary binds loosest: its arms extend over the whole
// expression after ? and :, with or without redundant parentheses; nested
// ternaries are rejected.
func ZZ_C12_Ternary(sv *zzsv.T) {
	a, b, c, d := sv.Int64("a"), sv.Int64("b"), sv.Int64("c"), sv.Int64("d")
	type variant struct {
		src  string
		cond func() bool
		then func() int64
		els  func() int64
	}
	tr := func(x int64) bool { return x > 0 }
	vs := []variant{
		{"return a ? b : c + d;", func() bool { return tr(a) }, func() int64 { return b }, func() int64 { return c + d }},
		{"return a ? (b) : c + d;", func() bool { return tr(a) }, func() int64 { return b }, func() int64 { return c + d }},
		{"return a ? b : (c + d);", func() bool { return tr(a) }, func() int64 { return b }, func() int64 { return c + d }},
		{"return a ? -b : c + d;", func() bool { return tr(a) }, func() int64 { return -b }, func() int64 { return c + d }},
		{"return a ? b + c : d;", func() bool { return tr(a) }, func() int64 { return b + c }, func() int64 { return d }},
		{"return a ? (b + c) : d * 2;", func() bool { return tr(a) }, func() int64 { return b + c }, func() int64 { return d * 2 }},
		{"return a < b ? c : d;", func() bool { return a < b }, func() int64 { return c }, func() int64 { return d }},
		{"return a + b ? c : d;", func() bool { return tr(a + b) }, func() int64 { return c }, func() int64 { return d }},
		{"return (a ? b : c) + d;", func() bool { return tr(a) }, func() int64 { return b + d }, func() int64 { return c + d }},
		{"x = a ? b : c - d; return x;", func() bool { return tr(a) }, func() int64 { return b }, func() int64 { return c - d }},
		{"return a ? b * 2 : c * 3 + d;", func() bool { return tr(a) }, func() int64 { return b * 2 }, func() int64 { return c*3 + d }},
	}
	nested := []string{
		"return a ? b ? 1 : 2 : 3;",
		"return a ? 1 : b ? 2 : 3;",
		"return a ? (b ? 1 : 2) : 3;",
		"return a ? 1 : (b ? 2 : 3);",
	}
	k := sv.Choice("variant", len(vs)+len(nested))
	if k >= len(vs) {
		src := nested[k-len(vs)]
		sv.Note("script", src)
		e := New(src)
		sv.Assert("C12.ternary.nested_rejected", e.Prepare() != nil)
		return
	}
	v := vs[k]
	sv.Note("script", v.src)
	e := New(v.src)
	e.SetVariable("a", &object.Integer{Value: a})
	e.SetVariable("b", &object.Integer{Value: b})
	e.SetVariable("c", &object.Integer{Value: c})
	e.SetVariable("d", &object.Integer{Value: d})
	err := e.Prepare()
	sv.Assert("C12.ternary.prepares", err == nil)
	if err != nil {
		return
	}
	out, rerr := e.Execute(nil)
	zzDescribe(sv, "result", out, rerr)
	want := v.els()
	if v.cond() {
		want = v.then()
	}
	sv.Assert("C12.ternary.value", rerr == nil && zzSame(sv, out, zInt(want)))
}
