//go:build verif

// Package zzsv is the harness support library. Under the symbolic engine
// every method of T and SymCtx is intercepted by name and never executed;
// the bodies below are the native twin used to replay solver models against
// the real build.
package zzsv

import (
	"bufio"
	"context"
	"encoding/json"
	"fmt"
	"io"
	"math"
	"os"
	"strconv"
	"sync"
	"time"
)

// T carries the valuation of one replayed path.
type T struct {
	vals   map[string]string
	occ    map[string]int
	Log    []string
	Fails  []string
	Reachd []string
	Notes  map[string]string
	AssumeFailed bool
	saved  *os.File
	rd     *os.File
	wr     *os.File
	outc   chan string
	threads []func()
	tmpfiles []string
	watch    chan watchReq
}

type assumeFailed struct{}

func New(vals map[string]string) *T {
	return &T{vals: vals, occ: map[string]int{}, Notes: map[string]string{}, watch: make(chan watchReq, 1)}
}

type watchReq struct {
	site    string
	seconds int
}

// MustTerminate states that the rest of the harness has to come to an end:
// under the engine a path that exhausts its instruction budget after this
// call is a failed assertion at `site` (instead of an inconclusive path);
// natively the replay driver gives the harness `seconds` and then records
// the failure and moves on (the harness goroutine is abandoned).
func (t *T) MustTerminate(site string, seconds int) {
	select {
	case t.watch <- watchReq{site, seconds}:
	default:
	}
}

func (t *T) key(name string) string {
	n := t.occ[name]
	t.occ[name] = n + 1
	if n == 0 {
		return name
	}
	return fmt.Sprintf("%s#%d", name, n)
}

func (t *T) raw(name string) (string, bool) {
	v, ok := t.vals[t.key(name)]
	return v, ok
}

func (t *T) Int64(name string) int64 {
	v, ok := t.raw(name)
	if !ok {
		return 0
	}
	i, _ := strconv.ParseInt(v, 10, 64)
	return i
}

func (t *T) Int(name string) int     { return int(t.Int64(name)) }
func (t *T) Int32(name string) int32 { return int32(t.Int64(name)) }

func (t *T) Uint64(name string) uint64 {
	v, ok := t.raw(name)
	if !ok {
		return 0
	}
	i, _ := strconv.ParseUint(v, 10, 64)
	return i
}

func (t *T) Uint16(name string) uint16      { return uint16(t.Uint64(name)) }
func (t *T) Byte(name string) byte          { return byte(t.Uint64(name)) }
func (t *T) Float32bits(name string) uint32 { return uint32(t.Uint64(name)) }

func (t *T) Bool(name string) bool {
	v, _ := t.raw(name)
	return v == "true"
}

func (t *T) Float64(name string) float64 {
	v, ok := t.raw(name)
	if !ok {
		return 0
	}
	b, _ := strconv.ParseUint(v, 0, 64)
	return math.Float64frombits(b)
}

func (t *T) Bytes(name string, n int) []byte {
	out := make([]byte, n)
	for i := range out {
		out[i] = t.Byte(fmt.Sprintf("%s[%d]", name, i))
	}
	return out
}

func (t *T) String(name string, n int) string { return string(t.Bytes(name, n)) }

func (t *T) Choice(name string, n int) int {
	v, ok := t.raw(name)
	if !ok {
		return 0
	}
	i, _ := strconv.Atoi(v)
	if i < 0 || i >= n {
		return 0
	}
	return i
}

// Param is a bound of the harness: quick and thorough tiers may differ.
func (t *T) Param(name string, quick, thorough int) int {
	v, ok := t.raw("param:" + name)
	if !ok {
		return quick
	}
	i, _ := strconv.Atoi(v)
	return i
}

// FloatSame: same float in the sense of "same printed form" (NaN equals
// NaN, +0 differs from -0). The engine builds one SMT equality for it.
func (t *T) FloatSame(a, b float64) bool {
	if a != a || b != b {
		return a != a && b != b
	}
	return math.Float64bits(a) == math.Float64bits(b)
}

// All and Any combine conditions without short-circuit branching (the
// engine builds one term instead of forking per operand).
func (t *T) All(cs ...bool) bool {
	for _, c := range cs {
		if !c {
			return false
		}
	}
	return true
}

func (t *T) Any(cs ...bool) bool {
	for _, c := range cs {
		if c {
			return true
		}
	}
	return false
}

func (t *T) Assume(c bool) {
	if !c {
		t.AssumeFailed = true
		panic(assumeFailed{})
	}
}

func (t *T) Assert(site string, c bool) {
	if !c || os.Getenv("VERIF_CANARY") != "" {
		t.Fails = append(t.Fails, site)
	}
}

func (t *T) Region(name string, c bool) {}
func (t *T) Reach(site string)          { t.Reachd = append(t.Reachd, site) }
func (t *T) Note(key, val string)       { t.Notes[key] = val }
func (t *T) MapOrderNondet(on bool)     {}
func (t *T) Symbolic() bool             { return false }

// Failed reports whether an assertion has failed so far; ResetLog forgets the
// observations of a native retry (map-iteration order cannot be forced
// natively, so counterexamples that depend on it are retried). Under the
// engine Failed is false and ResetLog does nothing.
func (t *T) Failed() bool { return len(t.Fails) > 0 }
func (t *T) ResetLog()    { t.Log = nil; t.occ = map[string]int{} }

func (t *T) Setenv(k, v string) { os.Setenv(k, v) }

// EnvOther declares the environment adversarial: a variable the harness did
// not set may be unset or hold v. (Natively the variables a counterexample
// names arrive in the case as "env:NAME" entries.)
func (t *T) EnvOther(v string) {}

func fmtVal(v interface{}) string {
	switch x := v.(type) {
	case nil:
		return "nil"
	case bool:
		return strconv.FormatBool(x)
	case string:
		return strconv.Quote(x)
	case float64:
		if x != x {
			return "f:NaN"
		}
		return fmt.Sprintf("f:0x%016x", math.Float64bits(x))
	case float32:
		return fmtVal(float64(x))
	case int:
		return strconv.FormatInt(int64(x), 10)
	case int8:
		return strconv.FormatInt(int64(x), 10)
	case int16:
		return strconv.FormatInt(int64(x), 10)
	case int32:
		return strconv.FormatInt(int64(x), 10)
	case int64:
		return strconv.FormatInt(x, 10)
	case uint:
		return strconv.FormatUint(uint64(x), 10)
	case uint8:
		return strconv.FormatUint(uint64(x), 10)
	case uint16:
		return strconv.FormatUint(uint64(x), 10)
	case uint32:
		return strconv.FormatUint(uint64(x), 10)
	case uint64:
		return strconv.FormatUint(x, 10)
	case uintptr:
		return strconv.FormatUint(uint64(x), 10)
	}
	return fmt.Sprintf("?%T", v)
}

func (t *T) Observe(key string, vals ...interface{}) {
	s := key + "="
	for i, v := range vals {
		if i > 0 {
			s += ","
		}
		s += fmtVal(v)
	}
	t.Log = append(t.Log, s)
}

// File makes content available as a file and returns its path (natively a
// real temporary file; under the engine a registered name that the
// ReadFile stub knows).
func (t *T) File(label, content string) string {
	f, err := os.CreateTemp("", "zzfile-*-"+label)
	if err != nil {
		panic(err)
	}
	f.WriteString(content)
	f.Close()
	t.tmpfiles = append(t.tmpfiles, f.Name())
	return f.Name()
}

// StdoutStart redirects os.Stdout into a pipe until StdoutEnd.
func (t *T) StdoutStart() {
	r, w, err := os.Pipe()
	if err != nil {
		return
	}
	t.saved, t.rd, t.wr = os.Stdout, r, w
	os.Stdout = w
	t.outc = make(chan string, 1)
	go func() {
		b, _ := io.ReadAll(r)
		t.outc <- string(b)
	}()
}

func (t *T) StdoutEnd() string {
	if t.saved == nil {
		return ""
	}
	t.wr.Close()
	os.Stdout = t.saved
	t.saved = nil
	s := <-t.outc
	t.rd.Close()
	return s
}

// Go registers a thread body and Wait runs the registered bodies: natively
// as real goroutines (the replay runs under the race detector), under the
// engine one after the other in every order, with all accesses logged.
func (t *T) Go(f func()) { t.threads = append(t.threads, f) }

func (t *T) Wait() {
	var wg sync.WaitGroup
	for _, f := range t.threads {
		wg.Add(1)
		go func(f func()) {
			defer wg.Done()
			f()
		}(f)
	}
	wg.Wait()
	t.threads = nil
}

// SymCtx is a context whose Done channel becomes ready from poll K on.
type SymCtx struct {
	ID        int
	Polls     int
	K         int64
	Cancelled bool
}

// Cancel makes the context done from now on (cancellation indexed by the
// work the script has done rather than by poll count).
func (c *SymCtx) Cancel() { c.Cancelled = true }

var closedCh = func() chan struct{} { c := make(chan struct{}); close(c); return c }()
var openCh = make(chan struct{})

func (t *T) Ctx(name string, maxPolls int) *SymCtx {
	return &SymCtx{K: t.Int64(name)}
}

func (c *SymCtx) Deadline() (time.Time, bool) { return time.Time{}, false }
func (c *SymCtx) Done() <-chan struct{} {
	j := c.Polls
	c.Polls++
	if c.Cancelled || c.K <= int64(j) {
		return closedCh
	}
	return openCh
}
func (c *SymCtx) Err() error {
	// (done from poll K on: Err is non-nil as soon as a look at Done would
	// find it closed - also before anybody has looked)
	if c.Cancelled || c.K <= int64(c.Polls) {
		return context.Canceled
	}
	return nil
}
func (c *SymCtx) Value(key interface{}) interface{} { return nil }

// ---- native replay driver

// Case is one replay request.
type Case struct {
	Harness string            `json:"harness"`
	Model   map[string]string `json:"model"`
}

// Outcome is what the native run observed.
type Outcome struct {
	Harness string   `json:"harness"`
	Obs     []string `json:"obs"`
	Fails   []string `json:"fails"`
	Panic   string   `json:"panic,omitempty"`
	Assume  bool     `json:"assume_failed,omitempty"`
}

var registry = map[string]func(*T){}

// Register makes a harness known to the native replay driver.
func Register(name string, f func(*T)) { registry[name] = f }

func runOne(c Case) (o Outcome) {
	o.Harness = c.Harness
	f, ok := registry[c.Harness]
	if !ok {
		o.Panic = "unknown harness " + c.Harness
		return
	}
	t := New(c.Model)
	for k, v := range c.Model {
		if len(k) > 4 && k[:4] == "env:" {
			os.Setenv(k[4:], v)
			defer os.Unsetenv(k[4:])
		}
	}
	done := make(chan struct{})
	go func() {
		defer close(done)
		defer func() {
			if t.saved != nil {
				t.StdoutEnd()
			}
			for _, f := range t.tmpfiles {
				os.Remove(f)
			}
			o.Obs, o.Fails = t.Log, t.Fails
			if r := recover(); r != nil {
				if _, ok := r.(assumeFailed); ok {
					o.Assume = true
					return
				}
				o.Panic = fmt.Sprint(r)
				o.Fails = append(o.Fails, "harness.panic")
			}
		}()
		f(t)
	}()
	select {
	case <-done:
	case req := <-t.watch:
		select {
		case <-done:
		case <-time.After(time.Duration(req.seconds) * time.Second):
			// still running: the harness is abandoned where it is
			return Outcome{Harness: c.Harness, Obs: []string{"did not terminate"}, Fails: []string{req.site}}
		}
	}
	return
}

// RunCases reads cases (JSON lines) from $VERIF_CASES and writes outcomes to
// $VERIF_OUT. It returns false if no case file was given.
func RunCases() bool {
	in := os.Getenv("VERIF_CASES")
	if in == "" {
		return false
	}
	f, err := os.Open(in)
	if err != nil {
		panic(err)
	}
	defer f.Close()
	out, err := os.Create(os.Getenv("VERIF_OUT"))
	if err != nil {
		panic(err)
	}
	defer out.Close()
	w := bufio.NewWriter(out)
	defer w.Flush()
	sc := bufio.NewScanner(f)
	sc.Buffer(make([]byte, 1<<20), 1<<26)
	for sc.Scan() {
		var c Case
		if err := json.Unmarshal(sc.Bytes(), &c); err != nil {
			panic(err)
		}
		o := runOne(c)
		b, _ := json.Marshal(o)
		w.Write(b)
		w.WriteByte('\n')
	}
	return true
}
