//go:build verif

package evalfilter

// C18 - every accepted script compiles to well-formed machine code. A
// bytecode verifier (decoder, control-flow graph, abstract stack depth) is
// applied to the main body and every function body, before and after
// optimisation.

import (
	"strings"

	"github.com/skx/evalfilter/v2/code"
	"github.com/skx/evalfilter/v2/object"
	"github.com/skx/evalfilter/v2/zzsv"
)

func init() {
	zzsv.Register("ZZ_C18_Generated", ZZ_C18_Generated)
	zzsv.Register("ZZ_C18_Literals", ZZ_C18_Literals)
	zzsv.Register("ZZ_C18_Operands", ZZ_C18_Operands)
	zzsv.Register("ZZ_C18_LongPrograms", ZZ_C18_LongPrograms)
	zzsv.Register("ZZ_C18_FunctionTails", ZZ_C18_FunctionTails)
	zzsv.Register("ZZ_C18_EndOfProgram", ZZ_C18_EndOfProgram)
}

type zzInstr struct {
	off int
	op  code.Opcode
	arg int
	ln  int
}

// zzVerify checks one body. isFunc: falling off the end is not allowed.
// It returns the name of the first violated rule ("" = well formed).
func zzVerify(sv *zzsv.T, body code.Instructions, consts []object.Object, isFunc bool) string {
	// 1. decode: known opcodes with complete operands
	var ins []zzInstr
	at := map[int]int{} // offset -> instruction index
	for ip := 0; ip < len(body); {
		op := code.Opcode(body[ip])
		if int(op) >= len(code.OpCodeNames) || code.OpCodeNames[op] == "" {
			return "unknown-opcode"
		}
		ln := code.Length(op)
		if ip+ln > len(body) {
			return "truncated-operand"
		}
		arg := 0
		if ln > 1 {
			arg = int(body[ip+1])<<8 | int(body[ip+2])
		}
		at[ip] = len(ins)
		ins = append(ins, zzInstr{ip, op, arg, ln})
		ip += ln
	}
	// 2. operands
	for _, in := range ins {
		switch in.op {
		case code.OpJump, code.OpJumpIfFalse:
			if _, ok := at[in.arg]; !ok {
				return "jump-target-not-an-instruction"
			}
		case code.OpConstant:
			if in.arg >= len(consts) {
				return "constant-out-of-range"
			}
		case code.OpLookup, code.OpInc, code.OpDec:
			if in.arg >= len(consts) {
				return "constant-out-of-range"
			}
			if _, ok := consts[in.arg].(*object.String); !ok {
				return "name-constant-not-a-string"
			}
		}
	}
	if len(ins) == 0 {
		if isFunc {
			return "function-falls-off-the-end"
		}
		return ""
	}
	// 3. abstract interpretation of the stack depth over all CFG paths
	// (minimum depth with which each instruction can be reached)
	const unseen = -1
	depth := make([]int, len(ins))
	for i := range depth {
		depth[i] = unseen
	}
	type item struct{ idx, d int }
	work := []item{{0, 0}}
	fallsOff := false
	push := func(idx, d int) {
		if idx >= len(ins) {
			fallsOff = true
			return
		}
		if depth[idx] == unseen || d < depth[idx] {
			depth[idx] = d
			work = append(work, item{idx, d})
		}
	}
	depth[0] = 0
	steps := 0
	for len(work) > 0 {
		steps++
		if steps > 20000 {
			return "verifier-did-not-converge"
		}
		it := work[len(work)-1]
		work = work[:len(work)-1]
		if depth[it.idx] != it.d {
			continue
		}
		in := ins[it.idx]
		d := it.d
		need, gain := 0, 0
		switch in.op {
		case code.OpConstant, code.OpPush, code.OpLookup, code.OpTrue, code.OpFalse, code.OpVoid:
			gain = 1
		case code.OpNop, code.OpPlaceholder, code.OpJump:
		case code.OpLocal, code.OpJumpIfFalse, code.OpReturn, code.OpInc, code.OpDec:
			need = 1
		case code.OpSet:
			need = 2
		case code.OpAdd, code.OpSub, code.OpMul, code.OpDiv, code.OpMod, code.OpPower, code.OpLess, code.OpLessEqual,
			code.OpGreater, code.OpGreaterEqual, code.OpEqual, code.OpNotEqual, code.OpMatches, code.OpNotMatches,
			code.OpAnd, code.OpOr, code.OpArrayIn, code.OpCase, code.OpIndex, code.OpRange:
			need, gain = 2, 1
		case code.OpBang, code.OpMinus, code.OpSquareRoot, code.OpIterationReset:
			need, gain = 1, 1
		case code.OpArray, code.OpHash:
			need, gain = in.arg, 1
		case code.OpCall:
			need, gain = in.arg+1, 1 // called functions are assumed to return a value
		case code.OpIterationNext:
			need = 3
		}
		if d < need {
			return "stack-underflow"
		}
		d = d - need + gain
		switch in.op {
		case code.OpReturn:
			// path ends
		case code.OpJump:
			push(at[in.arg], d)
		case code.OpJumpIfFalse:
			push(at[in.arg], d)
			push(it.idx+1, d)
		case code.OpIterationNext:
			// pushes (object, true) to continue or (false) when exhausted;
			// the compiler always follows it with the loop's JumpIfFalse
			if it.idx+1 < len(ins) && ins[it.idx+1].op == code.OpJumpIfFalse {
				j := ins[it.idx+1]
				push(at[j.arg], d)  // exhausted: false popped by the jump
				push(it.idx+2, d+1) // continue: true popped, the object stays
			} else {
				push(it.idx+1, d+1)
			}
		default:
			push(it.idx+1, d)
		}
	}
	if fallsOff && isFunc {
		return "function-falls-off-the-end"
	}
	return ""
}

// zzWalked reads the program the machine will run through the public walker.
func zzWalked(e *Eval, fn string) (code.Instructions, error) {
	var out code.Instructions
	visit := func(offset int, op code.Opcode, arg interface{}) (bool, error) {
		out = append(out, byte(op))
		if arg != nil {
			out = append(out, byte(arg.(int)>>8), byte(arg.(int)))
		}
		return true, nil
	}
	// (the call must complete before `out` is read: Go leaves the order of a
	// variable read and a call in one return statement unspecified)
	var err error
	if fn == "" {
		err = e.machine.WalkBytecode(visit)
	} else {
		err = e.machine.WalkFunctionBytecode(fn, visit)
	}
	return out, err
}

// zzVerifyEval verifies everything an accepted script compiled to.
func zzVerifyEval(sv *zzsv.T, site string, e *Eval) {
	// as compiled
	sv.Assert(site+".compiled.main", zzVerify(sv, e.instructions, e.constants, false) == "")
	for name, f := range e.functions {
		rule := zzVerify(sv, f.Bytecode, e.constants, true)
		if rule != "" {
			sv.Note("rule", rule+" in compiled function "+name)
		}
		sv.Assert(site+".compiled.function", rule == "")
	}
	// as the machine will run it (after optimisation, if enabled)
	main, err := zzWalked(e, "")
	sv.Assert(site+".walk", err == nil)
	sv.Assert(site+".machine.main", zzVerify(sv, main, e.constants, false) == "")
	for name := range e.functions {
		body, err := zzWalked(e, name)
		sv.Assert(site+".walk", err == nil)
		rule := zzVerify(sv, body, e.constants, true)
		if rule != "" {
			sv.Note("rule", rule+" in function "+name)
		}
		sv.Assert(site+".machine.function", rule == "")
	}
}

// ZZ_C18_Generated: every program of the control-flow and scope generators
// that Prepare accepts is well formed, with and without the optimizer.
func ZZ_C18_Generated(sv *zzsv.T) {
	var src string
	vars := map[string]zv{}
	var order []string
	fam := sv.Choice("family", 3)
	if fam == 2 {
		// conditionals in tail position after foldable constants
		g := newGen(sv, 1)
		g.small = true
		src = zzTailProgram(sv, g).text()
		vars, order = g.vars, g.order
	} else if fam == 0 {
		g := newGen(sv, sv.Param("depth", 1, 2))
		g.small = true
		if sv.Choice("withconst", 2) == 1 {
			g.constKind = 1 + sv.Choice("constkind", 6)
		}
		p := g.program()
		src = p.text()
		vars, order = g.vars, g.order
	} else {
		k := sv.Choice("scenario", 28)
		clash := []string{"a", "b"}[sv.Choice("clash", 2)]
		src = zzScopeProgram(sv, k, clash, xVar("arr")).text()
	}
	sv.Note("script", src)
	var trace []object.Object
	e, err := zzPrepare(sv, src, vars, order, sv.Choice("noopt", 2) == 1, &trace)
	sv.Assume(err == nil)
	sv.Observe("functions", len(e.functions))
	zzVerifyEval(sv, "C18.gen", e)
}

var zzC18Templates = []string{
	"function f() { 7001; } y = 1; return y;",
	"function f(a) { if (a) { return 7001; } } return f(1);",
	"function f(a) { x = 7001; } f(1); return x;",
	"function f(a) { a == 7001; } return 2;",
	"function f(a) { foreach v in [7001, 7002] { if (v == a) { return v; } } } return f(7003);",
	"function f(a) { while (a < 7001) { a++; } } return 3;",
	"function f(a) { switch (a) { case 7001 { return 1; } default { 7002; } } } return f(7003);",
	"function f() { return 7001; } return f() + 7002;",
	"x = 7001 > 7002 ? 7003 : 1; return x;",
	"if (7001 == 7002) { return 7003; } return 7001 * 7002;",
	"function f(a) { return a ? 7001 : 7002; } return f(7003);",
	"function f(a) { local q; q = 7001; } return 4;",
	"function f() { -7001; } return 5;",
	"function f() { [7001, 7002]; } return 6;",
	"function f() { \"s\"[7001]; } return 7;",
	// constant arithmetic around sub-expressions the optimizer cannot fold
	"return 7001 - 7002 + 7003;",
	"return 7001 + ((7002 - 7003) + 7001);",
	"function f() { return 7001 - 7002 - 7003; } return f();",
	"if (7001 - 7002 + 7003 == 2) { return 1; } return 7001 + 7002 + 7003;",
	"function f(a) { return a + (7001 - (7002 + 7003)); } return f(1) - 7001 + 7002;",
	// hash and array literals: keys given twice, keys that may coincide, nested literals
	"h = {\"a\": 7001, \"a\": 7002}; return h;",
	"function f() { return {1: 7001, 1: 7002, 2: 7003}; } return f();",
	"return {7001: 1, 7002: 2, 7003: 3};",
	"return {\"k\": {\"k\": 7001, \"k\": 7002}, \"k\": [7003, 7003]};",
	"return {1.5: 7001, 1.5: 7002, true: 1, true: 2};",
	"x = [7001, 7001, [7002, 7002]]; return {x[0]: 1, x[1]: 2};",
	// a constant-true conditional without else whose block ends in an operand the solver chooses, with more code behind it
	"if (true) { return 7001; } x = 7002; y = 7003; t(x); if (x) { t(y); } return 9;",
	"if (1 == 1) { x = 7001; } y = 7002; if (y) { t(7003); } t(9); t(2304); return y ? 9 : 2313;",
	"function f(a) { if (true) { return 7001; } if (a) { t(7002); } t(9); return 7003; } return f(1) + (true ? 7002 : 9);",
	"x = true ? 7001 : 7002; if (x) { t(9); } return 7003;",
	"if (true) { return 7001; } if (A % 2 == 1) { A = 7002; } return false;",
	"if (true) { return 7001; } if (A in [7]) { A = 7002; } return false;",
	"if (1 == 1) { return 7001; } x = 7002; y = 7003; if (x) { return x + y; } return 7002;",
	"if (true) { x = 7001; t(x); } A = 7002; if (A) { A = 7003; } return A;",
}

// ZZ_C18_Literals: integer literals symbolic in [0, 70000] at AST level:
// whether an operand byte happens to look like an opcode, or a literal sits
// on either side of the inline limit, must not matter.
func ZZ_C18_Literals(sv *zzsv.T) {
	src := zzC18Templates[sv.Choice("template", len(zzC18Templates))]
	sv.Note("script", src+"   (7001.. are symbolic literals)")
	var lits []int64
	for i := 0; i < 3; i++ {
		l := sv.Int64("L")
		sv.Assume(l >= 0)
		sv.Assume(l <= 70000)
		lits = append(lits, l)
	}
	prog, ok := zzParseWithLits(sv, src, lits)
	sv.Assume(ok)
	e := New(src)
	sv.Assume(zzPrepareAST(e, prog, sv.Choice("noopt", 2) == 0) == nil)
	zzVerifyEval(sv, "C18.lit", e)
}

// ZZ_C18_Operands: constant-pool indexes around the values that look like
// opcodes, and a function whose last instruction refers to such a constant.
func ZZ_C18_Operands(sv *zzsv.T) {
	n := 20 + sv.Choice("nconsts", 8) // 20..27 distinct name constants before the function
	src := ""
	for k := 0; k < n; k++ {
		src += "n" + string(rune('a'+k/26)) + string(rune('a'+k%26)) + "; "
	}
	tail := []string{"zz;", "zz++;", "\"lit\";", "t(zz);"}[sv.Choice("tail", 4)]
	src += "function f() { " + tail + " } return 1;"
	sv.Note("script", src)
	var trace []object.Object
	e, err := zzPrepare(sv, src, nil, nil, sv.Choice("noopt", 2) == 1, &trace)
	sv.Assume(err == nil)
	zzVerifyEval(sv, "C18.operands", e)
	out, rerr := e.Execute(nil)
	zzDescribe(sv, "result", out, rerr)
}

// ZZ_C18_LongPrograms: code longer than 256 bytes (jump operands whose high
// byte is not zero, targets moved across a 256-byte boundary by the
// optimizer), every padding length; also inside a function body.
func ZZ_C18_LongPrograms(sv *zzsv.T) {
	src := zzLongProgram(sv)
	if sv.Choice("infunction", 2) == 1 {
		src = "function big(A, p) { " + src + " } return big(1, 0);"
	}
	sv.Note("script", src)
	var trace []object.Object
	e, err := zzPrepare(sv, src, map[string]zv{"A": zInt(5), "p": zInt(0)}, []string{"A", "p"}, sv.Choice("noopt", 2) == 1, &trace)
	sv.Assume(err == nil)
	zzVerifyEval(sv, "C18.long", e)
}

var zzC18Last = []string{
	"x = a;", "a;", "a + 1;", "t(a);", "a++;", "local q;", "local q; q = a;",
	"if (a) { return 1; }", "if (a) { return 1; } else { return 2; }", "if (a) { x = 1; } else { return 2; }",
	"while (a < 2) { a++; }", "for (a < 2) { return a; }",
	"foreach v in [1, 2] { if (v == a) { return v; } }", "foreach i, v in 1..2 { x = v; }",
	"switch (a) { case 1 { return 1; } default { return 2; } }", "switch (a) { case 1 { return 1; } }",
	"a ? 1 : 2;", "return a ? 1 : 2;", "return;", "return a;",
	"function inner(b) { return b; }", "function inner(b) { x = b; }", "function inner() { }",
	"function inner(b) { function innermost() { return 1; } }",
	"{ }", "[a, 1];", "{\"k\": a};", "a[0];", "-a;", "!a;", "\"s\";", "1.5;", "/re/;", "x = a ? 1 : 2;", "x += 1;",
}

// ZZ_C18_FunctionTails: a function body may end in any kind of statement -
// including another function definition - and may sit anywhere a definition
// is allowed: every body of the compiled program (each compiled exactly once)
// still ends in a return on every path and is otherwise well formed, and
// calling the functions as statements never fails with one of the machine's
// internal errors.
func ZZ_C18_FunctionTails(sv *zzsv.T) {
	last := zzC18Last[sv.Choice("last", len(zzC18Last))]
	pre := []string{"", "x = 1; ", "if (a) { x = 2; } ", "function before() { return 3; } "}[sv.Choice("pre", 4)]
	body := pre + last
	var src string
	switch sv.Choice("place", 4) {
	case 0:
		src = "function outer(a) { " + body + " } outer(A); outer(A); return 1;"
	case 1: // defined inside another function, after which that function goes on
		src = "function host(a) { function outer(a) { " + body + " } outer(a); return 5; } host(A); outer(A); return 1;"
	case 2: // defined as the last thing in another function
		src = "function host(a) { x = a; function outer(a) { " + body + " } } host(A); outer(A); return 1;"
	default: // two definitions in a row, used before they appear
		src = "outer(A); other(A); function outer(a) { " + body + " } function other(a) { " + body + " } return 1;"
	}
	sv.Note("script", src)
	a := sv.Int64("A")
	// (loops over `a` in the tails: keep the trip count small)
	sv.Assume(a >= -1 && a <= 3)
	var trace []object.Object
	e, err := zzPrepare(sv, src, map[string]zv{"A": zInt(a)}, []string{"A"}, sv.Choice("noopt", 2) == 1, &trace)
	if err != nil {
		// (some tails are not statements of the language: nothing to verify)
		sv.Reach("C18.tails.rejected")
		return
	}
	zzVerifyEval(sv, "C18.tails", e)
	out, rerr := e.Execute(nil)
	zzDescribe(sv, "result", out, rerr)
	if rerr != nil {
		msg := rerr.Error()
		internal := false
		for _, m := range []string{"empty stack", "instruction pointer", "unhandled opcode", "out of bounds", "access constant"} {
			if strings.Contains(msg, m) {
				internal = true
			}
		}
		sv.Assert("C18.tails.no_internal_error", !internal)
	} else {
		sv.Assert("C18.tails.result", zzSame(sv, out, zInt(1)))
	}
}

var zzC18Endings = []string{
	"if (A) { if (B) { return true; } }",
	"if (A) { if (B) { x = 1; } else { x = 2; } }",
	"if (A) { x = 1; } else { if (B) { x = 2; } }",
	"if (A) { if (B) { if (A > B) { x = 3; } } }",
	"if (A) { while (B > 0) { B = B - 1; } }",
	"foreach v in [1, 2] { if (A) { t(v); } }",
	"foreach v in [1, 2] { if (A) { if (B) { t(v); } } }",
	"while (A > 0) { A = A - 1; if (B) { t(A); } }",
	"switch (A) { case 1 { if (B) { x = 1; } } }",
	"switch (A) { case 1 { x = 1; } default { if (B) { x = 2; } } }",
	"if (A) { switch (B) { case 1 { x = 1; } } }",
	"if (A) { B ? 1 : 2; }",
	"if (A) { x = B ? 1 : 2; }",
	"function f(p) { if (p) { if (B) { return 1; } } } f(A);",
	"if (A) { f(B); } function f(p) { if (p) { x = p; } }",
	"if (A) { } else { }",
	"if (A) { if (B) { } }",
}

// ZZ_C18_EndOfProgram: programs (and function bodies) whose last statement
// is a block nested in a block, with nothing after it: every jump out of the
// inner and outer blocks has to land on an instruction inside the body - also
// after the optimizer has removed and merged what follows the blocks - and
// running with any inputs never fails with one of the machine's internal
// errors.
func ZZ_C18_EndOfProgram(sv *zzsv.T) {
	src := zzC18Endings[sv.Choice("ending", len(zzC18Endings))]
	switch sv.Choice("prefix", 3) {
	case 1:
		src = "x = 1 + 2; " + src
	case 2:
		src = "if (1 == 1) { x = 4; } " + src
	}
	sv.Note("script", src)
	a := sv.Int64("A")
	b := sv.Int64("B")
	sv.Assume(a >= -1 && a <= 3 && b >= -1 && b <= 3)
	var trace []object.Object
	e, err := zzPrepare(sv, src, map[string]zv{"A": zInt(a), "B": zInt(b)}, []string{"A", "B"}, sv.Choice("noopt", 2) == 1, &trace)
	sv.Assume(err == nil)
	zzVerifyEval(sv, "C18.end", e)
	for run := 0; run < 2; run++ {
		out, rerr := e.Execute(nil)
		zzDescribe(sv, "result", out, rerr)
		if rerr != nil {
			msg := rerr.Error()
			internal := false
			for _, m := range []string{"empty stack", "instruction pointer", "unhandled opcode", "out of bounds", "access constant"} {
				if strings.Contains(msg, m) {
					internal = true
				}
			}
			sv.Assert("C18.end.no_internal_error", !internal)
		}
	}
}
