//go:build verif

package environment

// C10 - scripts are confined. The engine has no model for file, network or
// process primitives: a path that reaches one is a counterexample (the
// native twin is then run under strace to confirm the effect). This harness
// sweeps every built-in that environment.New() registers - the set is read
// at run time, so a new built-in is swept automatically - with 0..3
// arguments of every type.

import (
	"sort"

	"github.com/skx/evalfilter/v2/object"
	"github.com/skx/evalfilter/v2/zzsv"
)

func init() {
	zzsv.Register("ZZ_C10_Builtins", ZZ_C10_Builtins)
}

func zzArg(sv *zzsv.T, t int, name string, symbolicInt bool) object.Object {
	switch t {
	case 0:
		if symbolicInt {
			i := sv.Int64(name)
			sv.Assume(i >= -99)
			sv.Assume(i <= 9999)
			return &object.Integer{Value: i}
		}
		return &object.Integer{Value: 7}
	case 1:
		return &object.Float{Value: 1.5}
	case 2:
		return &object.String{Value: []string{"a,b", "/etc/passwd", "%d %s", "TZ", "(", "../x", "http://127.0.0.1:1/", "|ls"}[sv.Choice(name+".str", 8)]}
	case 3:
		return &object.Boolean{Value: true}
	case 4:
		return &object.Null{}
	case 5:
		return &object.Array{Elements: []object.Object{&object.String{Value: "/tmp/zz_c10_probe"}, &object.Integer{Value: 1}}}
	case 6:
		k := &object.String{Value: "file"}
		return &object.Hash{Pairs: map[object.HashKey]object.HashPair{k.HashKey(): {Key: k, Value: &object.String{Value: "/tmp/zz_c10_probe"}}}}
	default:
		return &object.Regexp{Value: "a"}
	}
}

// ZZ_C10_Builtins: call every registered built-in directly.
func ZZ_C10_Builtins(sv *zzsv.T) {
	env := New()
	var names []string
	for n := range env.functions {
		names = append(names, n)
	}
	sort.Strings(names)
	name := names[sv.Choice("builtin", len(names))]
	sv.Note("builtin", name)
	n := sv.Choice("nargs", 4)
	var args []object.Object
	t := 0
	for k := 0; k < n; k++ {
		if k < 2 {
			t = sv.Choice("argtype", 8)
		}
		// symbolic integers only where the built-in computes with the number
		sym := name == "between" || name == "min" || name == "max" || name == "hour" || name == "minute" || name == "seconds" ||
			name == "day" || name == "month" || name == "year" || name == "weekday" || name == "type"
		args = append(args, zzArg(sv, t, "arg", sym))
	}
	fn, ok := env.GetFunction(name)
	sv.Assume(ok)
	f, isFn := fn.(func(args []object.Object) object.Object)
	sv.Assume(isFn)
	// the configured time zone is host data too: zone names, and values that
	// are not names of zones at all (paths, C-library spellings)
	tz := "UTC"
	switch name {
	case "hour", "minute", "seconds", "day", "month", "year", "weekday", "now", "time":
		if n <= 1 {
			tz = []string{"UTC", "", "Europe/Helsinki", "/etc/hostname", ":/etc/hostname", "../../etc/hostname", "Bogus/Zone"}[sv.Choice("TZ", 7)]
		}
	}
	sv.Setenv("TZ", tz)
	sv.Note("TZ", tz)
	// the rest of the process environment is adversarial: any variable a
	// built-in asks for may be unset or may name a file
	sv.EnvOther("/etc/hostname")
	if name == "getenv" && n == 1 {
		// reading environment variables is allowed. The variable's name is
		// symbolic (2..5 upper-case letters) and that variable is unset, so
		// any name-specific fallback in the built-in is inside the sweep.
		ln := 2 + sv.Choice("envname.len", 4)
		nm := sv.String("envname", ln)
		for i := 0; i < ln; i++ {
			sv.Assume(nm[i] >= 'A')
			sv.Assume(nm[i] <= 'Z')
		}
		sv.Assume(nm != "TZ")
		sv.Setenv(nm, "")
		args[0] = &object.String{Value: nm}
	}
	var out object.Object
	func() {
		defer func() { _ = recover() }() // panic() panics by design
		out = f(args)
	}()
	sv.Observe("returned", out != nil)
	sv.Assert("C10.builtin_returns_or_panics", true)
}
